"""Reference semantics of Sigma value modifiers (table-driven, written from the Sigma specification).

Abstract values:
  ("S", cased, tokens)       string; tokens: ("c", ch) | ("M",) | ("S",) | ("P", name)
  ("N", number)  ("B", bool)  ("null",)
  ("RE", text, flags)        regular expression text (with '*'/'?' verbatim), frozenset of flags
  ("CIDR", text)  ("CMP", op, number)  ("FR", field, starts_with, ends_with)  ("EX", bool)  ("TS", part, number)
  ("X", [values])            expansion (OR of alternatives, each processed by later modifiers)
apply_chain(field, mods, plain values) -> (values, linking "or"/"and", negated)  or raises Reject.
Nothing here imports pySigma.
"""
import base64
import ipaddress
import re

from .sigmastr import M, S, ref_parse

DASHES = ["-", "/", "–", "—", "―"]
TS_PARTS = ("minute", "hour", "day", "week", "month", "year")
CMP = ("lt", "lte", "gt", "gte")


class Reject(Exception):
    pass


def from_plain(v):
    if v is None:
        return ("null",)
    if isinstance(v, bool):
        return ("B", v)
    if isinstance(v, (int, float)):
        return ("N", int(v) if float(v) == int(v) else v)
    return ("S", False, tuple(ref_parse(v)), v)  # keeps the original text for |re / |cidr


def _s(val):
    return ("S", val[1], tuple(val[2]))


def _is_word(ch):
    return ch.isalnum() or ch == "_"


def _literal_text(tokens):
    if any(t[0] != "c" for t in tokens):
        return None
    return "".join(t[1] for t in tokens)


def _placeholders(tokens):
    """insert placeholders inside each literal run: unescaped %name% ; '\\%' is a literal percent."""
    out = []
    run = []

    def flush():
        s = "".join(run)
        i, n, lit = 0, len(s), []
        while i < n:
            if s[i] == "%" and (i == 0 or s[i - 1] != "\\"):
                j = s.find("%", i + 1)
                if j > i + 1:
                    for ch in "".join(lit).replace("\\%", "%"):
                        out.append(("c", ch))
                    lit.clear()
                    out.append(("P", s[i + 1 : j]))
                    i = j + 1
                    continue
            lit.append(s[i])
            i += 1
        for ch in "".join(lit).replace("\\%", "%"):
            out.append(("c", ch))
        run.clear()

    for t in tokens:
        if t[0] == "c":
            run.append(t[1])
        else:
            flush()
            out.append(t)
    flush()
    return tuple(out)


def _windash(tokens):
    """All dash variants of every parameter-position dash: '-' or '/' at the start of a literal run or
    after a non-word character, and directly followed by a word character."""
    pos = []
    for i, t in enumerate(tokens):
        if t[0] == "c" and t[1] in "-/":
            prev = tokens[i - 1] if i > 0 else None
            nxt = tokens[i + 1] if i + 1 < len(tokens) else None
            prev_ok = prev is None or prev[0] != "c" or not _is_word(prev[1])
            next_ok = nxt is not None and nxt[0] == "c" and _is_word(nxt[1])
            if prev_ok and next_ok:
                pos.append(i)
    res = [list(tokens)]
    for p in pos:
        res = [r[:p] + [("c", d)] + r[p + 1 :] for r in res for d in DASHES]
    # cross product order: first dash varies slowest
    return [tuple(r) for r in res]


def apply_value_modifier(mod, val, field, applied):
    k = val[0]
    if k == "X":
        out = []
        for v in val[1]:
            r = apply_value_modifier(mod, v, field, applied)
            out.extend(r if isinstance(r, list) else [r])
        return ("X", out)
    if mod in ("contains", "startswith", "endswith"):
        pre = mod in ("contains", "endswith")
        post = mod in ("contains", "startswith")
        if k == "S":
            t = list(val[2])
            if pre and not (t and t[0] == M):
                t = [M] + t
            if post and not (t and t[-1] == M):
                t = t + [M]
            return ("S", val[1], tuple(t))
        if k == "RE":
            text = val[1]
            orig = text
            if pre and not (orig[:2] == ".*" or orig[:1] == "^"):
                text = ".*" + text
            if post and not (_unescaped_suffix(orig, ".*") or _unescaped_suffix(orig, "$")):
                text = text + ".*"
            return ("RE", text, val[2])
        if k == "FR":
            return ("FR", val[1], val[2] or post, val[3] or pre)
        raise Reject(mod)
    if mod == "cased":
        if k == "S":
            return ("S", True, tuple(val[2]))
        raise Reject(mod)
    if mod == "re":
        if k == "S" and not applied and len(val) > 3:
            try:
                re.compile(val[3])
            except re.error:
                raise Reject("invalid regex")
            return ("RE", val[3], frozenset())
        raise Reject(mod)
    if mod in ("i", "ignorecase", "m", "multiline", "s", "dotall"):
        if k == "RE":
            return ("RE", val[1], val[2] | {mod[0]})
        raise Reject(mod)
    if mod == "cidr":
        if k == "S" and not applied and len(val) > 3:
            try:
                net = ipaddress.ip_network(val[3])
            except ValueError:
                raise Reject("invalid cidr")
            return ("CIDR", str(net))
        raise Reject(mod)
    if mod in CMP:
        if k == "N":
            return ("CMP", mod, val[1])
        if k == "TS":  # a timestamp part is a number: 'field|hour|gt: 5'
            return ("CMP", mod, (val[1], val[2]))
        raise Reject(mod)
    if mod in TS_PARTS:
        if k == "N":
            return ("TS", mod, int(val[1]))
        raise Reject(mod)
    if mod == "fieldref":
        if k == "S":
            text = _literal_text(val[2])
            if text is None:
                raise Reject("wildcards in field reference")
            return ("FR", text, False, False)
        raise Reject(mod)
    if mod == "exists":
        if k == "B" and field is not None and not applied:
            return ("EX", val[1])
        raise Reject(mod)
    if mod == "expand":
        if k == "S":
            return ("S", val[1], _placeholders(val[2]))
        if k == "RE":
            # inside a regular expression the backslash is no Sigma escape; '*' and '?' split the literal runs
            toks = _placeholders([M if c == "*" else S if c == "?" else ("c", c) for c in val[1]])
            text = "".join("*" if t == M else "?" if t == S else "%" + t[1] + "%" if t[0] == "P" else t[1] for t in toks)
            return ("RE", text, val[2])
        raise Reject(mod)
    if mod == "windash":
        if k == "S":
            return ("X", [("S", val[1], t) for t in _windash(val[2])])
        raise Reject(mod)
    if mod in ("base64", "base64offset"):
        if k == "S":
            text = _literal_text(val[2])
            if text is None:
                raise Reject("wildcards")
            b = text.encode()
            if mod == "base64":
                return ("S", False, tuple(("c", c) for c in base64.b64encode(b).decode()))
            starts, ends = (0, 2, 3), (None, -3, -2)
            return ("X", [("S", False, tuple(("c", c) for c in base64.b64encode(i * b" " + b)[starts[i] : ends[(len(b) + i) % 3]].decode())) for i in range(3)])
        raise Reject(mod)
    if mod in ("wide", "utf16", "utf16be"):
        if k == "S":
            out = []
            if mod == "utf16":
                out.append(("c", "﻿"))
            run = []

            def flush():
                s = "".join(run)
                run.clear()
                try:
                    enc = s.encode("utf-16be" if mod == "utf16be" else "utf-16le").decode("utf-8")
                except UnicodeDecodeError:
                    raise Reject("not encodable")
                out.extend(("c", c) for c in enc)

            for t in val[2]:
                if t[0] == "c":
                    run.append(t[1])
                else:
                    flush()
                    out.append(t)
            flush()
            return ("S", False, tuple(out))
        raise Reject(mod)
    raise Reject("unknown modifier " + mod)


LIST_MODS = ("all", "neq")
KNOWN = set(("contains startswith endswith cased re i ignorecase m multiline s dotall cidr lt lte gt gte minute hour day week month year "
             "fieldref exists expand windash base64 base64offset wide utf16 utf16be all neq").split())


def _unescaped_suffix(text, suffix):
    """The regular expression ends with the wildcard `.*` / the anchor `$` - not with an escaped dot or dollar."""
    if not text.endswith(suffix):
        return False
    head = text[: -len(suffix)]
    return (len(head) - len(head.rstrip("\\"))) % 2 == 0


def apply_chain(field, mods, plain_values):
    for m in mods:
        if m not in KNOWN:
            raise Reject("unknown modifier")
    vals = [from_plain(v) for v in plain_values]
    linking, negated = "or", False
    applied = []
    for m in mods:
        if m == "all":
            linking = "and"
        elif m == "neq":
            negated = True
        else:
            new = []
            for v in vals:
                r = apply_value_modifier(m, v, field, applied)
                new.append(r)
            vals = new
        applied.append(m)
    return [(_s(v) if v[0] == "S" else v) for v in vals], linking, negated
