"""Reference semantics of a Sigma rule document (dict), written from the Sigma specification.

formula_of_rule(doc, native_cidr) -> list of formulas (one per condition) over canonical atoms,
the same atom universe /verif/ref/querylang.py produces from a converted query:
  ("glob", cased, field|None, tokens)  ("num", field|None, text)  ("null", field)  ("exists", field)
  ("re", field|None, text)  ("cidr", field, text)  ("cmp", field, op, text)  ("fieldref", kind, f1, f2)
Nothing here imports pySigma.
"""
from . import condition as C
from .sigmastr import M, ref_parse

DASHES = ["-", "/", "–", "—", "―"]
CIDR_PATTERNS = {  # reference expansion of the CIDR values used by the harness pools
    "10.0.0.0/8": ["10.*"],
    "10.0.0.0/7": ["10.*", "11.*"],
    "192.168.0.0/16": ["192.168.*"],
    "192.168.1.0/24": ["192.168.1.*"],
}


def _norm(toks):
    out = []
    for t in toks:
        if t == M and out and out[-1] == M:
            continue
        out.append(t)
    return tuple(out)


def glob(cased, field, toks):
    return ("atom", ("glob", cased, field, _norm(toks)))


class Unsupported(Exception):
    pass


def _encoded(v, enc, field, pre, post):
    """Encoding modifiers (Sigma specification): UTF-16 transformation of the UTF-8 value, then Base64 of the
    bytes; base64offset = the three alignment-independent Base64 substrings, any of which may occur."""
    import base64

    if not isinstance(v, str) or any(c in v for c in "*?\\"):
        raise Unsupported("encoded value with special characters")
    alts = [v.encode("utf-8")]
    text = False
    for m in enc:
        if text:
            raise Unsupported("modifier after base64")
        if m in ("wide", "utf16le"):
            alts = [b.decode("utf-8").encode("utf-16le") for b in alts]
        elif m == "utf16be":
            alts = [b.decode("utf-8").encode("utf-16be") for b in alts]
        elif m == "base64":
            alts = [base64.b64encode(b) for b in alts]
            text = True
        else:
            starts, ends = (0, 2, 3), (None, -3, -2)
            alts = [base64.b64encode(b" " * i + b)[starts[i] : ends[(len(b) + i) % 3]] for b in alts for i in range(3)]
            text = True
    if not text:
        raise Unsupported("UTF-16 value without base64")
    out = []
    for a in alts:
        toks = [("c", ch) for ch in a.decode("ascii")]
        if pre:
            toks = [M] + toks
        if post:
            toks = toks + [M]
        out.append(glob(False, field, toks))
    return out[0] if len(out) == 1 else ("or", out)


def item_formula(key, value, native_cidr=False):
    if key is None:
        field, mods = None, []
    else:
        field, *mods = key.split("|")
        if field == "":
            field = None
    values = value if isinstance(value, list) else [value]
    link = "or"
    negate = False
    mode = "eq"
    cased = False
    pre = post = False
    flags = set()
    enc = []
    for m in mods:
        if m == "all":
            link = "and"
        elif m == "neq":
            negate = True
        elif m == "contains":
            pre = post = True
        elif m == "startswith":
            post = True
        elif m == "endswith":
            pre = True
        elif m == "cased":
            cased = True
        elif m in ("re", "cidr", "windash", "exists", "fieldref", "lt", "lte", "gt", "gte"):
            mode = m
        elif m in ("i", "m", "s"):
            flags.add(m)
        elif m in ("wide", "utf16le", "utf16be", "base64", "base64offset"):
            if pre or post or cased or mode != "eq":
                raise Unsupported(m + " after another value modifier")
            enc.append(m)
        else:
            raise Unsupported(m)
    subs = []
    for v in values:
        if mode == "eq" and enc:
            subs.append(_encoded(v, enc, field, pre, post))
        elif mode == "eq":
            if v is None:
                subs.append(("atom", ("null", field)))
            elif isinstance(v, bool):
                subs.append(("atom", ("num", field, "true" if v else "false")))
            elif isinstance(v, (int, float)):
                subs.append(("atom", ("num", field, str(v))))
            else:
                toks = ref_parse(v)
                if pre and not (toks and toks[0] == M):
                    toks = [M] + toks
                if post and not (toks and toks[-1] == M):
                    toks = toks + [M]
                subs.append(glob(cased, field, toks))
        elif mode == "re":
            prefix = "(?" + "".join(sorted(flags)) + ")" if flags else ""
            text = v
            if pre and not (text.startswith(".*") or text.startswith("^")):
                text = ".*" + text
            if post and not (text.endswith(".*") or text.endswith("$")):
                text = text + ".*"
            subs.append(("atom", ("re", field, prefix + text)))
        elif mode == "cidr":
            if native_cidr:
                subs.append(("atom", ("cidr", field, v)))
            else:
                subs.append(("or", [glob(False, field, ref_parse(p)) for p in CIDR_PATTERNS[v]]))
        elif mode == "windash":
            # the harness pools only use values with exactly one parameter dash at the start
            if not (v[0] in "-/" and all(c not in "-/" for c in v[1:])):
                raise Unsupported("windash value")
            alts = []
            for d in DASHES:
                toks = ref_parse(d + v[1:])
                if pre and not (toks and toks[0] == M):
                    toks = [M] + toks
                if post and not (toks and toks[-1] == M):
                    toks = toks + [M]
                alts.append(glob(cased, field, toks))
            subs.append(("or", alts))
        elif mode == "exists":
            a = ("atom", ("exists", field))
            subs.append(a if v else ("not", a))
        elif mode == "fieldref":
            kind = "FRCT" if (pre and post) else "FRSW" if post else "FREW" if pre else "FR"
            subs.append(("atom", ("fieldref", kind, field, v)))
        else:
            subs.append(("atom", ("cmp", field, mode, str(v))))
    f = subs[0] if len(subs) == 1 else (link, subs)
    return ("not", f) if negate else f


def detection_formula(definition, native_cidr=False, item_fn=None):
    """item_fn(key, value, native_cidr) -> formula lets a caller rewrite single detection items
    (used by the transformation reference of C12); ("none",) stands for a removed item."""
    it = item_fn or item_formula
    if isinstance(definition, dict):
        subs = [it(k, v, native_cidr) for k, v in definition.items()]
        return subs[0] if len(subs) == 1 else ("and", subs)
    if isinstance(definition, list):
        if all(isinstance(x, dict) for x in definition):
            subs = [detection_formula(x, native_cidr, item_fn) for x in definition]
        else:
            # a keyword list is ONE detection item with several values
            return it(None, definition, native_cidr)
        return subs[0] if len(subs) == 1 else ("or", subs)
    return it(None, definition, native_cidr)


def simplify_none(f):
    """Remove ("none",) sub-formulas: dropped from and/or, not(none) = none; returns ("none",) if nothing is left."""
    k = f[0]
    if k == "not":
        g = simplify_none(f[1])
        return g if g == ("none",) else ("not", g)
    if k in ("and", "or"):
        subs = [simplify_none(a) for a in f[1]]
        subs = [x for x in subs if x != ("none",)]
        if not subs:
            return ("none",)
        return subs[0] if len(subs) == 1 else (k, subs)
    return f


def _subst(f, env):
    k = f[0]
    if k == "v":
        return env[f[1]]
    if k == "not":
        return ("not", _subst(f[1], env))
    if k in ("and", "or"):
        return (k, [_subst(a, env) for a in f[1]])
    if k == "sel":
        subs = [_subst(a, env) for a in f[2]]
        return subs[0] if len(subs) == 1 else (f[1], subs)
    raise ValueError(k)


def formula_of_rule(doc, native_cidr=False, item_fn=None):
    det = doc["detection"]
    names = [k for k in det if k != "condition"]
    env = {n: detection_formula(det[n], native_cidr, item_fn) for n in names}
    conds = det["condition"] if isinstance(det["condition"], list) else [det["condition"]]
    return [_subst(C.parse(c, names), env) for c in conds]
