"""Reference model of Sigma string values, written from the Sigma specification.

A value is a sequence of tokens: ("c", ch) literal character, ("M",) multi wildcard `*`,
("S",) single wildcard `?`, ("P", name) placeholder.  Nothing in this file imports pySigma.
"""
from typing import List, Optional, Tuple

Tok = Tuple  # ("c", ch) | ("M",) | ("S",) | ("P", name)
M = ("M",)
S = ("S",)


def ref_parse(s: str) -> List[Tok]:
    """Sigma string syntax: `*` and `?` are wildcards; a backslash escapes a following
    backslash, `*` or `?`; a backslash before anything else (or at the end) is a literal."""
    out: List[Tok] = []
    i = 0
    n = len(s)
    while i < n:
        c = s[i]
        if c == "\\":
            if i + 1 < n and (s[i + 1] == "\\" or s[i + 1] == "*" or s[i + 1] == "?"):
                out.append(("c", s[i + 1]))
                i += 2
            else:
                out.append(("c", "\\"))
                i += 1
        elif c == "*":
            out.append(M)
            i += 1
        elif c == "?":
            out.append(S)
            i += 1
        else:
            out.append(("c", c))
            i += 1
    return out


def decode_target(
    text: str, esc: Optional[str], wm: Optional[str], ws: Optional[str]
) -> Optional[List[Tok]]:
    """Decoder of a generic target query language literal: the escape character makes the next
    character a literal; an unescaped wildcard token is a wildcard; everything else is literal.
    Returns None if the text ends inside an escape sequence."""
    out: List[Tok] = []
    i = 0
    n = len(text)
    while i < n:
        if esc is not None and text[i] == esc:
            if i + 1 >= n:
                return None
            out.append(("c", text[i + 1]))
            i += 2
        elif wm is not None and text.startswith(wm, i):
            out.append(M)
            i += len(wm)
        elif ws is not None and text.startswith(ws, i):
            out.append(S)
            i += len(ws)
        else:
            out.append(("c", text[i]))
            i += 1
    return out


def glob_match(toks: List[Tok], subject: str) -> bool:
    """Reference glob matcher (whole-string)."""
    n, m = len(toks), len(subject)
    # dp[i][j]: toks[i:] matches subject[j:]
    dp = [[False] * (m + 1) for _ in range(n + 1)]
    dp[n][m] = True
    for i in range(n - 1, -1, -1):
        t = toks[i]
        for j in range(m, -1, -1):
            if t == M:
                dp[i][j] = dp[i + 1][j] or (j < m and dp[i][j + 1])
            elif t == S:
                dp[i][j] = j < m and dp[i + 1][j + 1]
            else:
                dp[i][j] = j < m and subject[j] == t[1] and dp[i + 1][j + 1]
    return dp[0][0]
