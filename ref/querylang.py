"""Parser of the verification backend's target language (see /verif/backends/vbackend.py).

query  := expr
expr   := operators not/and/or with binding powers given by the backend's configured `precedence`
          (earlier in the tuple = binds tighter), binary operators left associative, groups "( expr )"
atom   := \\x05KIND\\x1fpart...\\x06   |   \\x02field\\x02 \\x04 value      (untemplated number/bool)

parse(text, precedence names) -> formula over *canonical atoms* (see canon()).
Formulas: ("atom", key) | ("not", f) | ("and", [f..]) | ("or", [f..]) | ("true",) | ("false",)
Nothing here imports pySigma.
"""
from typing import List

from .sigmastr import M, decode_target


class QuerySyntaxError(Exception):
    pass


# set by the harness while the known finding "native CIDR expression gets the field name unquoted"
# is open: the field of a CIDR atom is then accepted without quotes so that the structure around it
# is still checked
LENIENT_CIDR_FIELD = False


def _norm(toks):
    out = []
    for t in toks:
        if t == M and out and out[-1] == M:
            continue
        out.append(t)
    return tuple(out)


def _field(text: str) -> str:
    if len(text) >= 2 and text[0] == "\x02" and text[-1] == "\x02" and "\x02" not in text[1:-1]:
        return text[1:-1]
    raise QuerySyntaxError(f"field not quoted: {text!r}")


def _strlit(text: str):
    if len(text) < 2 or text[0] != '"' or text[-1] != '"':
        raise QuerySyntaxError(f"string literal not quoted: {text!r}")
    body = text[1:-1]
    i = 0
    while i < len(body):
        if body[i] == "\\":
            i += 2
            continue
        if body[i] == '"':
            raise QuerySyntaxError("unescaped quote inside literal")
        i += 1
    toks = decode_target(body, "\\", "*", "?")
    if toks is None:
        raise QuerySyntaxError("dangling escape")
    return toks


GLOB = {"EQ": (False, 0, 0), "WM": (False, 0, 0), "SW": (False, 0, 1), "EW": (False, 1, 0), "CT": (False, 1, 1),
        "CEQ": (True, 0, 0), "CSW": (True, 0, 1), "CEW": (True, 1, 0), "CCT": (True, 1, 1)}
NEG = {"NEQ": "EQ", "NSW": "SW", "NEW": "EW", "NCT": "CT", "NRE": "RE", "NCIDR": "CIDR", "NCSW": "CSW", "NCEW": "CEW", "NCCT": "CCT"}


def glob_atom(cased: bool, field, toks):
    return ("atom", ("glob", cased, field, _norm(toks)))


def canon(kind: str, parts: List[str]):
    """Atom text -> formula over canonical atoms."""
    if kind in NEG:
        return ("not", canon(NEG[kind], parts))
    if kind in GLOB:
        cased, pre, post = GLOB[kind]
        toks = _strlit(parts[1])
        return glob_atom(cased, _field(parts[0]), ([M] if pre else []) + toks + ([M] if post else []))
    if kind == "IN":
        field = _field(parts[0])
        items = parts[2].split("\x1d") if parts[2] != "" else []
        sub = []
        for it in items:
            if it.startswith('"'):
                sub.append(glob_atom(False, field, _strlit(it)))
            else:
                sub.append(("atom", ("num", field, it)))
        if parts[1] == "any":
            return ("or", sub)
        if parts[1] == "all":
            return ("and", sub)
        raise QuerySyntaxError("unknown list operator " + parts[1])
    if kind == "RE":
        return ("atom", ("re", _field(parts[0]), parts[1]))
    if kind == "CIDR":
        if LENIENT_CIDR_FIELD and not parts[0].startswith("\x02"):
            return ("atom", ("cidr", parts[0], parts[1]))
        return ("atom", ("cidr", _field(parts[0]), parts[1]))
    if kind == "CMP":
        return ("atom", ("cmp", _field(parts[0]), parts[1], parts[2]))
    if kind in ("FR", "FRSW", "FREW", "FRCT"):
        return ("atom", ("fieldref", kind, _field(parts[0]), _field(parts[1])))
    if kind == "NULL":
        return ("atom", ("null", _field(parts[0])))
    if kind == "EX":
        return ("atom", ("exists", _field(parts[0])))
    if kind == "NEX":
        return ("not", ("atom", ("exists", _field(parts[0]))))
    if kind == "KW":
        return glob_atom(False, None, _strlit(parts[0]))
    if kind == "KWN":
        return ("atom", ("num", None, parts[0]))
    if kind == "KWR":
        return ("atom", ("re", None, parts[0]))
    raise QuerySyntaxError("unknown atom kind " + kind)


def tokenize(text: str):
    toks = []
    i = 0
    n = len(text)
    while i < n:
        c = text[i]
        if c in " \t\n":
            i += 1
        elif c in "()":
            toks.append((c,))
            i += 1
        elif c == "\x05":
            j = text.find("\x06", i)
            if j < 0:
                raise QuerySyntaxError("unterminated atom")
            parts = text[i + 1 : j].split("\x1f")
            toks.append(("atom", canon(parts[0], parts[1:])))
            i = j + 1
        elif c == "\x02":
            j = text.find("\x02", i + 1)
            if j < 0 or j + 1 >= n or text[j + 1] not in "\x04\x07":
                raise QuerySyntaxError("bad untemplated atom")
            k = j + 2
            while k < n and text[k] not in " \t\n()":
                k += 1
            a = ("atom", ("num", text[i + 1 : j], text[j + 2 : k]))
            toks.append(("atom", ("not", a) if text[j + 1] == "\x07" else a))
            i = k
        elif c.isalpha():
            j = i
            while j < n and text[j].isalpha():
                j += 1
            w = text[i:j]
            if w not in ("and", "or", "not"):
                raise QuerySyntaxError("unknown word " + w)
            toks.append((w,))
            i = j
        else:
            raise QuerySyntaxError(f"unexpected character {c!r}")
    return toks


def parse(text: str, precedence=("not", "and", "or")):
    """precedence: operator names, tightest binding first."""
    bp = {op: 3 - precedence.index(op) for op in ("not", "and", "or")}  # larger = binds tighter
    toks = tokenize(text)
    pos = [0]

    def peek():
        return toks[pos[0]] if pos[0] < len(toks) else None

    def eat():
        t = peek()
        if t is None:
            raise QuerySyntaxError("unexpected end")
        pos[0] += 1
        return t

    def expr(min_bp):
        t = eat()
        if t[0] == "not":
            lhs = ("not", expr(bp["not"]))
        elif t[0] == "(":
            lhs = expr(0)
            if eat()[0] != ")":
                raise QuerySyntaxError("expected )")
        elif t[0] == "atom":
            lhs = t[1]
        else:
            raise QuerySyntaxError(f"unexpected token {t[0]}")
        while True:
            t = peek()
            if t is None or t[0] not in ("and", "or"):
                break
            p = bp[t[0]]
            if p < min_bp:
                break
            eat()
            rhs = expr(p + 1)  # left associative
            lhs = (t[0], [lhs, rhs])
        return lhs

    e = expr(0)
    if peek() is not None:
        raise QuerySyntaxError("trailing tokens")
    return e


def atoms_of(f, acc=None):
    if acc is None:
        acc = []
    if f[0] == "atom":
        if f[1] not in acc:
            acc.append(f[1])
    elif f[0] == "not":
        atoms_of(f[1], acc)
    elif f[0] in ("and", "or"):
        for a in f[1]:
            atoms_of(a, acc)
    return acc


def ev(f, env):
    """Non-short-circuit evaluation (symbolic booleans do not fork)."""
    k = f[0]
    if k == "atom":
        return env[f[1]]
    if k == "not":
        return ev(f[1], env) ^ True
    if k == "and":
        r = True
        for a in f[1]:
            r = r & ev(a, env)
        return r
    if k == "or":
        r = False
        for a in f[1]:
            r = r | ev(a, env)
        return r
    if k == "true":
        return True
    if k == "false":
        return False
    raise ValueError(k)
