"""Reference parser/evaluator of the Sigma condition grammar (written from the specification).

  expr     := and_expr ("or" and_expr)*            left associative, lowest precedence
  and_expr := not_expr ("and" not_expr)*           left associative
  not_expr := "not" not_expr | atom                binds tightest
  atom     := "(" expr ")" | quantifier "of" pattern | identifier
  quantifier := "1" | "any" | "all"                1/any -> OR of the matching detections, all -> AND
  pattern  := "them" | name pattern with "*" wildcards
A word is a keyword only if it IS the keyword (whole word); identifiers are [A-Za-z0-9_-]+.
Selectors never include underscore-prefixed detection names unless the pattern itself starts with "_".

Formulas are nested tuples: ("v", name) | ("not", f) | ("and", [f...]) | ("or", [f...]) | ("true",) | ("false",)
Nothing here imports pySigma.
"""
import re
from typing import List, Optional

IDCHARS = set("abcdefghijklmnopqrstuvwxyzABCDEFGHIJKLMNOPQRSTUVWXYZ0123456789_-")
PATCHARS = set("abcdefghijklmnopqrstuvwxyzABCDEFGHIJKLMNOPQRSTUVWXYZ0123456789_*")


class RefSyntaxError(Exception):
    pass


def tokenize(s: str) -> List[str]:
    toks = []
    i = 0
    while i < len(s):
        c = s[i]
        if c.isspace():
            i += 1
        elif c in "()":
            toks.append(c)
            i += 1
        elif c in IDCHARS or c == "*":
            j = i
            while j < len(s) and (s[j] in IDCHARS or s[j] == "*"):
                j += 1
            toks.append(s[i:j])
            i = j
        else:
            raise RefSyntaxError(f"bad character {c!r}")
    return toks


def glob_names(pattern: str, names: List[str]) -> List[str]:
    if pattern == "them":
        cand = list(names)
    else:
        rx = re.compile("".join(".*" if ch == "*" else re.escape(ch) for ch in pattern))
        cand = [n for n in names if rx.fullmatch(n)]
    if not pattern.startswith("_"):
        cand = [n for n in cand if not n.startswith("_")]
    return cand


class _P:
    def __init__(self, toks, names):
        self.t = toks
        self.i = 0
        self.names = names

    def peek(self) -> Optional[str]:
        return self.t[self.i] if self.i < len(self.t) else None

    def eat(self) -> str:
        tok = self.peek()
        if tok is None:
            raise RefSyntaxError("unexpected end")
        self.i += 1
        return tok

    def expr(self):
        args = [self.and_expr()]
        while self.peek() == "or":
            self.eat()
            args.append(self.and_expr())
        return args[0] if len(args) == 1 else ("or", args)

    def and_expr(self):
        args = [self.not_expr()]
        while self.peek() == "and":
            self.eat()
            args.append(self.not_expr())
        return args[0] if len(args) == 1 else ("and", args)

    def not_expr(self):
        if self.peek() == "not":
            self.eat()
            return ("not", self.not_expr())
        return self.atom()

    def atom(self):
        tok = self.eat()
        if tok == "(":
            e = self.expr()
            if self.eat() != ")":
                raise RefSyntaxError("expected )")
            return e
        if tok in ("1", "any", "all") and self.peek() == "of":
            self.eat()
            pat = self.eat()
            if pat in ("(", ")") or any(ch not in PATCHARS for ch in pat):
                raise RefSyntaxError("bad pattern")
            ms = glob_names(pat, self.names)
            return ("sel", "and" if tok == "all" else "or", [("v", n) for n in ms])
        if tok in (")", "and", "or", "not", "of"):
            raise RefSyntaxError(f"unexpected {tok}")
        if any(ch not in IDCHARS for ch in tok):
            raise RefSyntaxError("bad identifier")
        if tok not in self.names:
            raise KeyError(tok)
        return ("v", tok)


def parse(cond: str, names: List[str]):
    """-> formula; raises RefSyntaxError (malformed) or KeyError (unknown detection)."""
    p = _P(tokenize(cond), names)
    e = p.expr()
    if p.peek() is not None:
        raise RefSyntaxError("trailing tokens")
    return e


def ev(f, env):
    """Evaluate with non-short-circuit operators so that symbolic booleans do not fork."""
    k = f[0]
    if k == "v":
        return env[f[1]]
    if k == "not":
        return ev(f[1], env) ^ True
    if k in ("and", "or"):
        args = f[1]
    elif k == "sel":
        k, args = f[1], f[2]
    elif k == "true":
        return True
    elif k == "false":
        return False
    else:
        raise ValueError(k)
    if k == "and":
        r = True
        for a in args:
            r = r & ev(a, env)
        return r
    r = False
    for a in args:
        r = r | ev(a, env)
    return r


def has_empty_selector(f) -> bool:
    k = f[0]
    if k == "sel":
        return len(f[2]) == 0
    if k == "not":
        return has_empty_selector(f[1])
    if k in ("and", "or"):
        return any(has_empty_selector(a) for a in f[1])
    return False
