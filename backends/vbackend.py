"""Verification backend: a TextQueryBackend whose templates are delimiter-structured so that every
emitted query parses back unambiguously (see /verif/ref/querylang.py).

  templated atom   \\x05KIND\\x1f{part}\\x1f{part}...\\x06
  untemplated atom {quoted field}\\x04{value}          (numbers / booleans use field + eq_token + value)
  quoted field     \\x02name\\x02                       (always quoted)
  string literal   "..." with backslash escapes, wildcards * and ?
Only class attributes are set - every convert_* method is the library's own.
"""
import re
from typing import ClassVar

from sigma.conditions import ConditionAND, ConditionNOT, ConditionOR
from sigma.conversion.base import TextQueryBackend
from sigma.processing.pipeline import ProcessingPipeline
from sigma.types import CompareOperators, SigmaRegularExpressionFlag


def T(kind, *parts):
    return "\x05" + kind + "".join("\x1f" + p for p in parts) + "\x06"


class VBackend(TextQueryBackend):
    name: ClassVar[str] = "verification backend"
    formats = {"default": "plain queries"}
    requires_pipeline = False
    backend_processing_pipeline = ProcessingPipeline()

    precedence = (ConditionNOT, ConditionAND, ConditionOR)
    parenthesize = False
    group_expression = "({expr})"
    token_separator = " "
    or_token = "or"
    and_token = "and"
    not_token = "not"
    eq_token = "\x04"

    field_quote = "\x02"
    field_quote_pattern = None
    field_escape = None

    str_quote = '"'
    escape_char = "\\"
    wildcard_multi = "*"
    wildcard_single = "?"
    add_escaped = "\\"
    filter_chars = ""
    bool_values = {True: "true", False: "false"}

    eq_expression = T("EQ", "{field}", "{value}")
    startswith_expression = T("SW", "{field}", "{value}")
    endswith_expression = T("EW", "{field}", "{value}")
    contains_expression = T("CT", "{field}", "{value}")
    wildcard_match_expression = T("WM", "{field}", "{value}")

    case_sensitive_match_expression = T("CEQ", "{field}", "{value}")
    case_sensitive_startswith_expression = T("CSW", "{field}", "{value}")
    case_sensitive_endswith_expression = T("CEW", "{field}", "{value}")
    case_sensitive_contains_expression = T("CCT", "{field}", "{value}")

    re_expression = T("RE", "{field}", "{regex}")
    re_escape_char = "\\"
    re_escape = ()
    re_escape_escape_char = False
    re_flag_prefix = True

    cidr_expression = None

    compare_op_expression = T("CMP", "{field}", "{operator}", "{value}")
    compare_operators = {
        CompareOperators.LT: "lt",
        CompareOperators.LTE: "lte",
        CompareOperators.GT: "gt",
        CompareOperators.GTE: "gte",
        CompareOperators.NEQ: "neq",
    }

    field_equals_field_expression = T("FR", "{field1}", "{field2}")
    field_equals_field_startswith_expression = T("FRSW", "{field1}", "{field2}")
    field_equals_field_endswith_expression = T("FREW", "{field1}", "{field2}")
    field_equals_field_contains_expression = T("FRCT", "{field1}", "{field2}")
    field_equals_field_escaping_quoting = (True, True)

    field_null_expression = T("NULL", "{field}")
    field_exists_expression = T("EX", "{field}")
    field_not_exists_expression = T("NEX", "{field}")

    convert_or_as_in = True
    convert_and_as_in = True
    in_expressions_allow_wildcards = False
    field_in_list_expression = T("IN", "{field}", "{op}", "{list}")
    or_in_operator = "any"
    and_in_operator = "all"
    list_separator = "\x1d"

    unbound_value_str_expression = T("KW", "{value}")
    unbound_value_num_expression = T("KWN", "{value}")
    unbound_value_re_expression = T("KWR", "{value}")

    deferred_start = "\n| "
    deferred_separator = "\n| "
    deferred_only_query = "*"


NOT_TEMPLATES = dict(
    not_eq_token="\x07",
    not_eq_expression=T("NEQ", "{field}", "{value}"),
    not_startswith_expression=T("NSW", "{field}", "{value}"),
    not_endswith_expression=T("NEW", "{field}", "{value}"),
    not_contains_expression=T("NCT", "{field}", "{value}"),
    not_re_expression=T("NRE", "{field}", "{regex}"),
    not_cidr_expression=T("NCIDR", "{field}", "{value}"),
    case_sensitive_not_startswith_expression=T("NCSW", "{field}", "{value}"),
    case_sensitive_not_endswith_expression=T("NCEW", "{field}", "{value}"),
    case_sensitive_not_contains_expression=T("NCCT", "{field}", "{value}"),
)

N, A, O = ConditionNOT, ConditionAND, ConditionOR
PRECEDENCES = [(N, A, O), (N, O, A), (A, N, O), (A, O, N), (O, N, A), (O, A, N)]

# configuration table: name -> class attribute overrides
CONFIGS = [
    ("default", {}),
    ("prec-NOA", {"precedence": PRECEDENCES[1]}),
    ("prec-ANO", {"precedence": PRECEDENCES[2]}),
    ("prec-AON", {"precedence": PRECEDENCES[3]}),
    ("prec-ONA", {"precedence": PRECEDENCES[4]}),
    ("prec-OAN", {"precedence": PRECEDENCES[5]}),
    ("parenthesize", {"parenthesize": True}),
    ("no-in", {"convert_or_as_in": False, "convert_and_as_in": False}),
    ("in-wildcards", {"in_expressions_allow_wildcards": True}),
    ("no-string-ops", {"startswith_expression": None, "endswith_expression": None, "contains_expression": None, "wildcard_match_expression": None,
                       "case_sensitive_startswith_expression": None, "case_sensitive_endswith_expression": None, "case_sensitive_contains_expression": None}),
    ("native-cidr", {"cidr_expression": T("CIDR", "{field}", "{value}")}),
    ("explicit-not-exists-off", {"field_not_exists_expression": None}),
    ("not-eq", dict(NOT_TEMPLATES, convert_not_as_not_eq=True)),
]


def make_backend(cfg: int, **extra) -> TextQueryBackend:
    """A fresh subclass per call: class attributes of one configuration never leak into another."""
    name, attrs = CONFIGS[cfg]
    cls = type("VBackend_" + re.sub("\\W", "_", name), (VBackend,), dict(attrs, **extra))
    return cls()
