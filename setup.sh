#!/bin/sh
# Build the overlay venv used by every check (offline; idempotent; file-locked).
# /venv (the repository's interpreter + deps) is left untouched: /verif/.venv is a venv
# created from it whose .pth adds /venv's site-packages (which already puts /repo on the
# path via pysigma.pth) and crosshair-tool + z3-solver from the offline wheelhouse.
set -e
cd "$(dirname "$0")"
exec 9>.venv.lock
flock 9
if [ -x .venv/bin/python ] && .venv/bin/python -c "import crosshair, z3, sigma" 2>/dev/null; then
  exit 0
fi
rm -rf .venv
/venv/bin/python -m venv .venv
SP=$(.venv/bin/python -c "import site;print(site.getsitepackages()[0])")
printf '/venv/lib/python3.12/site-packages\n/repo\n' > "$SP/_overlay.pth"
PIP_NO_INDEX=1 .venv/bin/pip install -q --no-index --find-links /opt/veriftools/wheels crosshair-tool >/dev/null
.venv/bin/python -c "import crosshair, z3, sigma; assert sigma.__path__[0]=='/repo/sigma', sigma.__path__"
