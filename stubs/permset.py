"""Sets whose iteration order is chosen by the harness (stands for hash randomisation).

Python's set iteration order is unspecified and - for strings - differs between processes with
different hash seeds.  `install(mode)` puts the names `set` and `frozenset` into the namespace of
every loaded `sigma.*` module, so that every *call* `set(...)` / `frozenset(...)` in the library
creates a PermSet / PermFrozenSet: a real set subclass whose iteration order is the elements
sorted by repr() and then permuted according to `mode` (0 sorted, 1 reversed, 2 rotated by one,
3 rotated by two; thorough tier: 4 reversed+rotated, 5 even then odd positions, 6 odd positions
reversed then even, 7 ordered by the reversed text).  Any of these orders is a legitimate behaviour of a real set.
Set displays / comprehensions and sets created by C code (dataclass default_factory=set captured
at class creation) are not intercepted - the harness reports them by an AST scan.
"""
import sys

MODE = [0]


def _order(items):
    xs = sorted(items, key=repr)
    m = MODE[0]
    if m == 1:
        xs.reverse()
    elif m == 2 and xs:
        xs = xs[1:] + xs[:1]
    elif m == 3 and len(xs) > 1:
        xs = xs[2 % len(xs):] + xs[: 2 % len(xs)]
    elif m == 4 and xs:  # reversed, rotated by one
        xs.reverse()
        xs = xs[1:] + xs[:1]
    elif m == 5:  # even positions, then odd positions
        xs = xs[0::2] + xs[1::2]
    elif m == 6:  # odd positions reversed, then even positions
        xs = xs[1::2][::-1] + xs[0::2]
    elif m == 7:  # ordered by the reversed text
        xs = sorted(xs, key=lambda x: repr(x)[::-1])
    return xs


def _mk(base, name):
    class P(base):
        __slots__ = ()

        def __iter__(self):
            return iter(_order(list(base.__iter__(self))))

        def _w(self, r):
            return type(self)(r) if isinstance(r, (set, frozenset)) else r

        def difference(self, *o):
            return self._w(base.difference(self, *o))

        def union(self, *o):
            return self._w(base.union(self, *o))

        def intersection(self, *o):
            return self._w(base.intersection(self, *o))

        def symmetric_difference(self, o):
            return self._w(base.symmetric_difference(self, o))

        def copy(self):
            return self._w(base.copy(self))

        def __sub__(self, o):
            return self._w(base.__sub__(self, o))

        def __or__(self, o):
            return self._w(base.__or__(self, o))

        def __and__(self, o):
            return self._w(base.__and__(self, o))

        def __xor__(self, o):
            return self._w(base.__xor__(self, o))

        def __rsub__(self, o):
            return self._w(base.__rsub__(self, o))

        def __ror__(self, o):
            return self._w(base.__ror__(self, o))

        def __repr__(self):
            return base.__name__ + "(" + repr(_order(list(base.__iter__(self)))) + ")" if len(self) else base.__name__ + "()"

        if base is set:

            def pop(self):
                xs = _order(list(base.__iter__(self)))
                if not xs:
                    raise KeyError("pop from an empty set")
                base.remove(self, xs[0])
                return xs[0]

    P.__name__ = name
    P.__qualname__ = name
    return P


PermSet = _mk(set, "set")
PermFrozenSet = _mk(frozenset, "frozenset")


def install(mode: int):
    MODE[0] = mode
    n = 0
    for name, mod in list(sys.modules.items()):
        if (name == "sigma" or name.startswith("sigma.")) and mod is not None:
            mod.__dict__["set"] = PermSet
            mod.__dict__["frozenset"] = PermFrozenSet
            n += 1
    return n


def uninstall():
    for name, mod in list(sys.modules.items()):
        if (name == "sigma" or name.startswith("sigma.")) and mod is not None:
            if mod.__dict__.get("set") is PermSet:
                del mod.__dict__["set"]
            if mod.__dict__.get("frozenset") is PermFrozenSet:
                del mod.__dict__["frozenset"]
