"""Sets whose iteration order is chosen by the harness (stands for hash randomisation).

Python's set iteration order is unspecified and - for strings - differs between processes with
different hash seeds.  `install(mode)` puts the names `set` and `frozenset` into the namespace of
every loaded `sigma.*` module, so that every *call* `set(...)` / `frozenset(...)` in the library
creates a PermSet / PermFrozenSet: a real set subclass whose iteration order is the elements
sorted by repr() and then permuted according to `mode` (0 sorted, 1 reversed, 2 rotated by one,
3 rotated by two; thorough tier: 4 reversed+rotated, 5 even then odd positions, 6 odd positions
reversed then even, 7 ordered by the reversed text, 8 rotated by half, 9 by length then reversed text, 10 / 11 ordered by a salted digest).  Any of these orders is a legitimate behaviour of a real set.
Set displays / comprehensions and sets created by C code (dataclass default_factory=set captured
at class creation) are not intercepted - the harness reports them by an AST scan.
"""
import sys

MODE = [0]


def _order(items):
    xs = sorted(items, key=repr)
    m = MODE[0]
    if m == 1:
        xs.reverse()
    elif m == 2 and xs:
        xs = xs[1:] + xs[:1]
    elif m == 3 and len(xs) > 1:
        xs = xs[2 % len(xs):] + xs[: 2 % len(xs)]
    elif m == 4 and xs:  # reversed, rotated by one
        xs.reverse()
        xs = xs[1:] + xs[:1]
    elif m == 5:  # even positions, then odd positions
        xs = xs[0::2] + xs[1::2]
    elif m == 6:  # odd positions reversed, then even positions
        xs = xs[1::2][::-1] + xs[0::2]
    elif m == 7:  # ordered by the reversed text
        xs = sorted(xs, key=lambda x: repr(x)[::-1])
    elif m == 8:  # rotated by half
        xs = xs[len(xs) // 2:] + xs[: len(xs) // 2]
    elif m == 9:  # by length, then reversed text
        xs = sorted(xs, key=lambda x: (len(repr(x)), repr(x)[::-1]))
    elif m in (10, 11):  # digest order (two salts): no relation to the alphabetical order at all
        import hashlib

        xs = sorted(xs, key=lambda x: hashlib.sha256((str(m) + repr(x)).encode()).digest())
    return xs


class _Meta(type):
    """isinstance(x, set) written inside a sigma module still accepts ordinary sets (created by C code)."""

    def __instancecheck__(cls, inst):
        return isinstance(inst, cls.__mro__[-2] if cls.__mro__[-2] is not object else cls) or type.__instancecheck__(cls, inst)


def _mk(base, name):
    class P(base, metaclass=_Meta):
        __slots__ = ()

        def __iter__(self):
            return iter(_order(list(base.__iter__(self))))

        def _w(self, r):
            return type(self)(r) if isinstance(r, (set, frozenset)) else r

        def difference(self, *o):
            return self._w(base.difference(self, *o))

        def union(self, *o):
            return self._w(base.union(self, *o))

        def intersection(self, *o):
            return self._w(base.intersection(self, *o))

        def symmetric_difference(self, o):
            return self._w(base.symmetric_difference(self, o))

        def copy(self):
            return self._w(base.copy(self))

        def __sub__(self, o):
            return self._w(base.__sub__(self, o))

        def __or__(self, o):
            return self._w(base.__or__(self, o))

        def __and__(self, o):
            return self._w(base.__and__(self, o))

        def __xor__(self, o):
            return self._w(base.__xor__(self, o))

        def __rsub__(self, o):
            return self._w(base.__rsub__(self, o))

        def __ror__(self, o):
            return self._w(base.__ror__(self, o))

        def __repr__(self):
            return base.__name__ + "(" + repr(_order(list(base.__iter__(self)))) + ")" if len(self) else base.__name__ + "()"

        if base is set:

            def pop(self):
                xs = _order(list(base.__iter__(self)))
                if not xs:
                    raise KeyError("pop from an empty set")
                base.remove(self, xs[0])
                return xs[0]

    P.__name__ = name
    P.__qualname__ = name
    return P


PermSet = _mk(set, "set")
PermFrozenSet = _mk(frozenset, "frozenset")


def install(mode: int):
    MODE[0] = mode
    n = 0
    for name, mod in list(sys.modules.items()):
        if (name == "sigma" or name.startswith("sigma.")) and mod is not None:
            mod.__dict__["set"] = PermSet
            mod.__dict__["frozenset"] = PermFrozenSet
            n += 1
    return n


def uninstall():
    for name, mod in list(sys.modules.items()):
        if (name == "sigma" or name.startswith("sigma.")) and mod is not None:
            if mod.__dict__.get("set") is PermSet:
                del mod.__dict__["set"]
            if mod.__dict__.get("frozenset") is PermFrozenSet:
                del mod.__dict__["frozenset"]


# ---------------------------------------------------------------- import hook: every set the library source creates
# Loads the sigma.* modules from their real source files with two purely syntactic, meaning-preserving changes
#   {a, b}            ->  set([a, b])
#   {x for x in xs}   ->  set([x for x in xs])
# and with the names set/frozenset bound to the order-permuting subclasses BEFORE the module body runs, so
# that also `field(default_factory=set)` and class-level `set()` calls create permuted sets.
import ast
import importlib.abc
import importlib.machinery


class _Rewriter(ast.NodeTransformer):
    def visit_SetComp(self, node):
        self.generic_visit(node)
        return ast.copy_location(ast.Call(func=ast.Name(id="set", ctx=ast.Load()), args=[ast.ListComp(elt=node.elt, generators=node.generators)], keywords=[]), node)

    def visit_Set(self, node):
        self.generic_visit(node)
        return ast.copy_location(ast.Call(func=ast.Name(id="set", ctx=ast.Load()), args=[ast.List(elts=node.elts, ctx=ast.Load())], keywords=[]), node)


REWRITTEN = []  # (module, number of set displays / comprehensions rewritten)


class _Loader(importlib.machinery.SourceFileLoader):
    def get_code(self, fullname):  # never from a byte-code cache
        path = self.get_filename(fullname)
        return self.source_to_code(self.get_data(path), path)

    def source_to_code(self, data, path, *, _optimize=-1):
        tree = ast.parse(data, filename=path)
        n = sum(isinstance(x, (ast.Set, ast.SetComp)) for x in ast.walk(tree))
        tree = ast.fix_missing_locations(_Rewriter().visit(tree))
        REWRITTEN.append((path, n))
        return compile(tree, path, "exec", dont_inherit=True, optimize=_optimize)

    def exec_module(self, module):
        module.__dict__["set"] = PermSet
        module.__dict__["frozenset"] = PermFrozenSet
        super().exec_module(module)


class _Finder(importlib.abc.MetaPathFinder):
    def find_spec(self, fullname, path, target=None):
        if fullname != "sigma" and not fullname.startswith("sigma."):
            return None
        spec = importlib.machinery.PathFinder.find_spec(fullname, path)
        if spec is None or not isinstance(spec.loader, importlib.machinery.SourceFileLoader):
            return None
        spec.loader = _Loader(spec.loader.name, spec.loader.path)
        return spec


_FINDER = [None]


def install_import_hook():
    """Must run before the sigma modules are imported; already imported ones are dropped and re-imported on demand."""
    if _FINDER[0] is None:
        _FINDER[0] = _Finder()
        sys.meta_path.insert(0, _FINDER[0])
        for name in [n for n in sys.modules if n == "sigma" or n.startswith("sigma.")]:
            del sys.modules[name]
    return _FINDER[0]
