"""Token model of base64.b64encode for term-stub execution (engine E2).

TokBytes  - a byte string whose elements are either concrete ints or symbolic payload bytes
            ("p", j).  Supports what the code under test does with it: len(), concatenation with
            real bytes on either side.
b64encode - stub: returns a TokB64 whose j-th character is a *token* (private-use code point)
            that records (variant id, j) - "the j-th output character of encoding THIS input" -
            or the PAD token.  TokB64 supports slicing, len() and .decode() -> str of tokens, which
            the real code wraps into a SigmaString.
char_term - turns a token back into a 7-bit z3 term (0..63 = sextet value, 64 = '=' padding) over
            the symbolic payload bytes.
"""
import base64 as _real

import z3

PUA = 0xE000
_inputs = []  # variant id -> list of byte elements (int | ("p", j))
_tok = {}  # (variant, j) -> cp
_rev = {}  # cp -> (variant, j)


def reset():
    _inputs.clear()
    _tok.clear()
    _rev.clear()


class TokBytes:
    def __init__(self, elems):
        self.elems = list(elems)

    @classmethod
    def payload(cls, n: int):
        return cls([("p", j) for j in range(n)])

    def __len__(self):
        return len(self.elems)

    def __add__(self, other):
        if isinstance(other, TokBytes):
            return TokBytes(self.elems + other.elems)
        if isinstance(other, (bytes, bytearray)):
            return TokBytes(self.elems + list(other))
        return NotImplemented

    def __radd__(self, other):
        if isinstance(other, (bytes, bytearray)):
            return TokBytes(list(other) + self.elems)
        return NotImplemented

    def __eq__(self, other):
        raise RuntimeError("control flow may not depend on a token's value")

    __hash__ = None  # type: ignore

    def __iter__(self):
        raise RuntimeError("iteration over symbolic bytes is not modelled")

    def __getitem__(self, i):
        if isinstance(i, slice):
            return TokBytes(self.elems[i])
        raise RuntimeError("indexing symbolic bytes is not modelled")


class TokB64:
    def __init__(self, chars):
        self.chars = list(chars)  # list of code points

    def __len__(self):
        return len(self.chars)

    def __getitem__(self, i):
        if isinstance(i, slice):
            return TokB64(self.chars[i])
        raise RuntimeError("control flow may not depend on a token's value")

    def decode(self, *a, **k):
        return "".join(chr(c) for c in self.chars)

    def __eq__(self, other):
        raise RuntimeError("control flow may not depend on a token's value")

    __hash__ = None  # type: ignore


def b64encode(data, altchars=None):
    """Stub of base64.b64encode on TokBytes; real bytes are passed to the real function."""
    if isinstance(data, (bytes, bytearray)):
        return _real.b64encode(data, altchars)
    if not isinstance(data, TokBytes):
        raise TypeError("b64encode stub: unexpected input " + type(data).__name__)
    if altchars is not None:
        raise RuntimeError("altchars not modelled")
    vid = len(_inputs)
    _inputs.append(list(data.elems))
    n = len(data.elems)
    out_len = 4 * ((n + 2) // 3)
    chars = []
    for j in range(out_len):
        cp = PUA + len(_tok)
        _tok[(vid, j)] = cp
        _rev[cp] = (vid, j)
        chars.append(cp)
    return TokB64(chars)


def is_token(ch: str) -> bool:
    return len(ch) == 1 and ord(ch) in _rev


def byte_term(e, pvars):
    if isinstance(e, tuple):
        return pvars[e[1]]
    return z3.BitVecVal(e, 8)


def sextet_of(byte_terms, j):
    """7-bit term of the j-th Base64 output character of the byte-term list (64 = padding)."""
    n = len(byte_terms)
    nchars_data = (8 * n + 5) // 6
    if j >= nchars_data:
        return z3.BitVecVal(64, 7)
    lo_bit = 6 * j
    bi = lo_bit // 8
    b0 = byte_terms[bi]
    b1 = byte_terms[bi + 1] if bi + 1 < n else z3.BitVecVal(0, 8)
    w = z3.Concat(b0, b1)  # 16 bits, b0 most significant
    sh = lo_bit % 8  # 0,2,4,6
    six = z3.Extract(15 - sh, 10 - sh, w)
    return z3.ZeroExt(1, six)


def char_term(ch: str, pvars):
    vid, j = _rev[ord(ch)]
    bts = [byte_term(e, pvars) for e in _inputs[vid]]
    return sextet_of(bts, j)


ALPH = "ABCDEFGHIJKLMNOPQRSTUVWXYZabcdefghijklmnopqrstuvwxyz0123456789+/"


def validate():
    """Differential check of sextet_of against the real base64.b64encode on concrete inputs."""
    n = 0
    for data in (b"", b"a", b"ab", b"abc", b"\xff\x00\x80k", bytes(range(250, 256)) + b"xyz", b" \xe1\x80\x80\xf0\x90\x80\x80"):
        real = _real.b64encode(data).decode()
        bts = [z3.BitVecVal(b, 8) for b in data]
        got = ""
        for j in range(len(real)):
            v = z3.simplify(sextet_of(bts, j)).as_long()
            got += "=" if v == 64 else ALPH[v]
        assert got == real, (data, got, real)
        assert len(real) == 4 * ((len(data) + 2) // 3)
        n += 1
    return n
