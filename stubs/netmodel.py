"""Token model of ipaddress.IPv4Network for term-stub execution (engine E2).

A TokNet stands for *every* IPv4 network of one prefix length at once: its network address is
the symbolic 32-bit value A (aligned to the prefix p).  Every address the real code can derive
from it (network address of the k-th subnet, a host address, the broadcast address) is A | off
for a concrete offset off < 2^(32-p).  `str(address)` is a dotted "quad" of four *tokens* - one
private-use code point per octet, allocated on demand, that records (off, octet index) - so the
real code can split/join/slice/compare lengths of it like real text while the octet's value
stays symbolic.  `octet_term` turns a token back into the z3 bit-vector term over A.
Control flow of the code under test may not depend on a token's value: the stubs raise if it
tries (-> harness error, not a verdict).
"""
from ipaddress import IPv4Network

import z3

PUA = 0xE000
PUA_END = 0xF8FF
_registry = {}  # (off, g) -> code point
_reverse = {}  # code point -> (off, g)


def reset():
    _registry.clear()
    _reverse.clear()


def _tok(off: int, g: int) -> str:
    key = (off, g)
    cp = _registry.get(key)
    if cp is None:
        cp = PUA + len(_registry)
        if cp > PUA_END:
            raise RuntimeError("token space exhausted")
        _registry[key] = cp
        _reverse[cp] = key
    return chr(cp)


def is_token(ch: str) -> bool:
    return len(ch) == 1 and ord(ch) in _reverse


def token_key(ch: str):
    return _reverse[ord(ch)]


class TokAddr:
    def __init__(self, off: int):
        self.off = off

    def __str__(self) -> str:
        return ".".join(_tok(self.off, g) for g in range(4))

    def __int__(self):
        raise RuntimeError("control flow may not depend on a token's value")

    def __eq__(self, other):
        raise RuntimeError("control flow may not depend on a token's value")

    __hash__ = None  # type: ignore


class TokNet(IPv4Network):
    """Subclass so that `isinstance(network, IPv4Network)` in the code under test holds."""

    def __init__(self, prefixlen: int, off: int = 0, root_prefix=None):  # noqa
        self._p = prefixlen
        self.off = off
        self._root_p = prefixlen if root_prefix is None else root_prefix

    @property
    def prefixlen(self) -> int:  # type: ignore[override]
        return self._p

    @property
    def network_address(self):  # type: ignore[override]
        return TokAddr(self.off)

    @network_address.setter
    def network_address(self, v):
        raise AttributeError

    @property
    def broadcast_address(self):  # type: ignore[override]
        return TokAddr(self.off | ((1 << (32 - self._p)) - 1))

    @property
    def num_addresses(self):  # type: ignore[override]
        return 1 << (32 - self._p)

    def _addr_range(self, lo: int, hi: int):
        if hi - lo > 1024:
            raise RuntimeError("address enumeration too large for the token model")
        for o in range(lo, hi):
            yield TokAddr(o)

    def __iter__(self):
        return self._addr_range(self.off, self.off + self.num_addresses)

    def hosts(self):  # type: ignore[override]
        n = self.num_addresses
        if self._p >= 31:
            return self._addr_range(self.off, self.off + n)
        return self._addr_range(self.off + 1, self.off + n - 1)

    def subnets(self, prefixlen_diff=1, new_prefix=None):  # type: ignore[override]
        if new_prefix is not None:
            prefixlen_diff = new_prefix - self._p
        if prefixlen_diff < 0 or self._p + prefixlen_diff > 32:
            raise ValueError("prefix length diff out of range")
        sub_p = self._p + prefixlen_diff
        if prefixlen_diff > 10:
            raise RuntimeError("subnet enumeration too large for the token model")
        for k in range(2**prefixlen_diff):
            yield TokNet(sub_p, self.off | (k << (32 - sub_p) if sub_p > 0 else 0), self._root_p)

    def __str__(self):
        raise RuntimeError("str(network) not modelled")


def octet_term(A, off: int, g: int):
    """z3 term of octet g (0 = most significant) of the address A | off."""
    addr = A | z3.BitVecVal(off, 32)
    return z3.Extract(31 - 8 * g, 24 - 8 * g, addr)


def decode_pattern(pat: str, wildcard: str = "*"):
    """pattern text -> (list of (off, g) tokens for the fixed leading groups, has_wildcard).
    Raises if the text is not a sequence of '.'-separated tokens optionally followed by the wildcard."""
    if pat == wildcard:
        return [], True
    wc = False
    body = pat
    if pat.endswith("." + wildcard):
        wc = True
        body = pat[: -len(wildcard) - 1]
    groups = body.split(".")
    toks = []
    for grp in groups:
        if not is_token(grp):
            raise ValueError(f"non-token text in pattern {pat!r}")
        toks.append(token_key(grp))
    if not wc and len(toks) != 4:
        raise ValueError(f"pattern without wildcard must have 4 groups: {pat!r}")
    if wc and len(toks) >= 4:
        raise ValueError(f"wildcard after 4 groups: {pat!r}")
    return toks, wc
