"""E3 helpers: solver-decided equivalence of two boolean formulas over canonical atoms.

Formulas are the nested tuples of /verif/ref/querylang.py.  `equivalent` asks z3 whether any truth
assignment of the atoms distinguishes the two formulas (one query; `unsat` = equivalent for ALL
assignments).  A private z3 context is used so that the query is independent of CrossHair's solver.
"""
import z3

STATS = {"queries": 0}


def _to_z3(f, env, ctx):
    k = f[0]
    if k == "atom":
        v = env.get(f[1])
        if v is None:
            v = z3.Bool("a%d" % len(env), ctx)
            env[f[1]] = v
        return v
    if k == "not":
        return z3.Not(_to_z3(f[1], env, ctx))
    if k == "and":
        return z3.And([_to_z3(a, env, ctx) for a in f[1]] + [z3.BoolVal(True, ctx)])
    if k == "or":
        return z3.Or([_to_z3(a, env, ctx) for a in f[1]] + [z3.BoolVal(False, ctx)])
    if k == "true":
        return z3.BoolVal(True, ctx)
    if k == "false":
        return z3.BoolVal(False, ctx)
    raise ValueError(k)


_CTX = []


def _ctx():
    if not _CTX:
        _CTX.append(z3.Context())
    return _CTX[0]


def equivalent(f1, f2):
    """-> (True, None) if equivalent for all assignments, else (False, {atom: bool} witness)."""
    ctx = _ctx()
    env = {}
    s = z3.Solver(ctx=ctx)
    s.add(_to_z3(f1, env, ctx) != _to_z3(f2, env, ctx))
    STATS["queries"] += 1
    r = s.check()
    if str(r) == "unsat":
        return True, None
    if str(r) != "sat":
        raise RuntimeError("z3 returned " + str(r))
    m = s.model()
    return False, {k: bool(m.eval(v, model_completion=True)) for k, v in env.items()}
