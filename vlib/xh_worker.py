"""One CrossHair obligation = one process.

usage: python -m vlib.xh_worker <module> <function> <per_condition_timeout_s>

Runs CrossHair's analysis of the PEP-316 contract of <module>.<function> (the harness; it calls
the real pySigma code from /repo) and prints one JSON line:
  verdict: confirmed | counterexample | inconclusive | unreachable | error
  paths, solver_queries, solver_s, wall_s, cpu_s, message, call (text of the failing call)
"""
import importlib
import json
import os
import re
import sys
import time
from collections import Counter


def main() -> None:
    modname, fname, tmo = sys.argv[1], sys.argv[2], float(sys.argv[3])
    t0 = time.time()
    c0 = time.process_time()
    out = {"module": modname, "function": fname, "timeout_s": tmo}
    try:
        import z3

        qstat = {"n": 0, "s": 0.0}
        _orig_check = z3.Solver.check

        def _check(self, *a, **k):
            t = time.perf_counter()
            try:
                return _orig_check(self, *a, **k)
            finally:
                qstat["n"] += 1
                qstat["s"] += time.perf_counter() - t

        z3.Solver.check = _check

        from crosshair.core_and_libs import analyze_function, run_checkables
        from crosshair.options import AnalysisOptionSet
        from crosshair.statespace import MessageType

        mod = importlib.import_module(modname)
        fn = getattr(mod, fname)
        stats: Counter = Counter()
        opts = AnalysisOptionSet(
            per_condition_timeout=tmo,
            report_all=True,
            stats=stats,
            max_uninteresting_iterations=sys.maxsize,
        )
        msgs = list(run_checkables(analyze_function(fn, opts)))
        out["paths"] = int(stats.get("num_paths", 0))
        out["solver_queries"] = qstat["n"]
        out["solver_s"] = round(qstat["s"], 3)
        verdict = "inconclusive"
        out["message"] = ""
        for m in msgs:
            st = m.state
            if st == MessageType.CONFIRMED:
                verdict = "confirmed"
            elif st == MessageType.CANNOT_CONFIRM:
                verdict = "inconclusive"
                out["message"] = m.message
            elif st == MessageType.PRE_UNSAT:
                verdict = "unreachable"
                out["message"] = m.message
            elif st in (MessageType.POST_FAIL, MessageType.EXEC_ERR, MessageType.POST_ERR):
                verdict = "counterexample"
                out["message"] = m.message
                mm = re.search(r"when calling (.*?)(?: \(which (?:returns|raises) .*\))?$", m.message, re.S)
                out["call"] = mm.group(1) if mm else None
                break
            else:
                verdict = "error"
                out["message"] = f"{st}: {m.message}"
                break
        if not msgs:
            verdict = "error"
            out["message"] = "no contract found"
        out["verdict"] = verdict
    except Exception as e:  # harness import error etc.  (CrossHair's own control flow is BaseException)
        import traceback

        out["verdict"] = "error"
        out["message"] = "".join(traceback.format_exception_only(type(e), e)).strip()
        out["traceback"] = traceback.format_exc()[-2000:]
    out["wall_s"] = round(time.time() - t0, 2)
    out["cpu_s"] = round(time.process_time() - c0, 2)
    sys.stdout.write("\nXHRESULT " + json.dumps(out) + "\n")
    sys.stdout.flush()
    os._exit(0)


if __name__ == "__main__":
    main()
