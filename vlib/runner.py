"""Obligation scheduler, counterexample replay, known-finding handling, evidence writer.

Exit codes: 0 no unlisted violation among everything explored; 1 VIOLATION line(s) printed;
3 harness / engine failure (vacuous harness, stub validation failed, worker error).
A timeout alone never changes the exit code: it lowers `discharged`.
"""
import argparse
import concurrent.futures as cf
import hashlib
import importlib
import inspect
import json
import os
import subprocess
import sys
import time

from . import known
from .obl import Ob
from .replay import parse_call

ROOT = os.path.dirname(os.path.dirname(os.path.abspath(__file__)))
PY = os.path.join(ROOT, ".venv", "bin", "python")
EVID = os.path.join(ROOT, "evidence")
REPLAY_DIR = os.path.join(EVID, "replay")


def _repo_state():
    """Revision of the tree the check ran against (the working tree of /repo, as imported)."""
    try:
        head = subprocess.run(["git", "-C", "/repo", "rev-parse", "HEAD"], capture_output=True, text=True, timeout=30).stdout.strip()
        dirty = subprocess.run(["git", "-C", "/repo", "status", "--porcelain", "--", "sigma"], capture_output=True, text=True, timeout=30).stdout.strip()
        return {"head": head, "uncommitted_changes_under_sigma": sorted(l[3:] for l in dirty.splitlines())}
    except Exception as e:  # git not available: not fatal
        return {"error": repr(e)}


DEV_REPO = [None]  # development only, see run_property


def _child_env(extra):
    env = {k: v for k, v in os.environ.items() if not k.startswith("VERIF_") or k in ("VERIF_SEED", "VERIF_TIER")}
    env.update(extra)
    env["PYTHONPATH"] = (DEV_REPO[0] + os.pathsep + ROOT) if DEV_REPO[0] else ROOT
    env["PYTHONDONTWRITEBYTECODE"] = "1"
    env["PYTHONHASHSEED"] = "0"
    env.pop("COVERAGE_PROCESS_START", None)
    return env


def _run_worker(ob: Ob, module: str, twin: bool):
    env = _child_env(ob.full_env())
    tmo = ob.timeout
    if twin:
        env["VERIF_TWIN"] = "1"
        tmo = min(ob.timeout, 90)
    worker = "vlib.xh_worker" if ob.kind == "xh" else "vlib.z3_worker"
    cmd = [PY, "-m", worker, module, ob.fn, str(tmo)]
    t0 = time.time()
    try:
        p = subprocess.run(cmd, env=env, cwd=ROOT, capture_output=True, text=True, timeout=tmo * 2 + 60)
        res = None
        for line in p.stdout.splitlines():
            if line.startswith("XHRESULT "):
                res = json.loads(line[len("XHRESULT "):])
        if res is None:
            res = {"verdict": "error", "message": "worker produced no result: " + (p.stderr or p.stdout)[-800:]}
    except subprocess.TimeoutExpired:
        res = {"verdict": "inconclusive", "message": "worker wall-clock limit reached", "paths": 0}
    res.setdefault("wall_s", round(time.time() - t0, 2))
    res["twin"] = twin
    res["ob"] = ob.ident()
    return res


def _replay_batch(cases):
    """Replay cases in a fresh plain-CPython process (one process per batch)."""
    if not cases:
        return []
    os.makedirs(os.path.join(EVID, "work"), exist_ok=True)
    path = os.path.join(EVID, "work", f"batch-{os.getpid()}-{time.time_ns()}.json")
    with open(path, "w") as f:
        json.dump(cases, f)
    try:
        p = subprocess.run(
            [PY, "-m", "vlib.replay", "--batch", path], env=_child_env({}), cwd=ROOT, capture_output=True, text=True, timeout=600
        )
        for line in p.stdout.splitlines():
            if line.startswith("REPLAYRESULT "):
                return json.loads(line[len("REPLAYRESULT "):])
        return [{"ok": None, "exception": "replay process failed: " + (p.stderr or p.stdout)[-600:]} for _ in cases]
    except subprocess.TimeoutExpired:
        return [{"ok": None, "exception": "replay timeout"} for _ in cases]
    finally:
        try:
            os.unlink(path)
        except OSError:
            pass


def _case_from(res, ob: Ob, module: str, twin: bool):
    env = dict(ob.full_env())
    if twin:
        env["VERIF_TWIN"] = "1"
    if ob.kind == "xh":
        try:
            args, kwargs = parse_call(res.get("call") or "")
        except Exception as e:
            return None, f"cannot parse counterexample call {res.get('call')!r}: {e}"
        return {"module": module, "function": ob.fn, "env": env, "args": args, "kwargs": kwargs, "call": res.get("call")}, None
    fn = ob.replay_fn or (ob.fn + "_replay")
    return {"module": module, "function": fn, "env": env, "args": res.get("cex_args", []), "kwargs": {}, "call": f"{fn}{tuple(res.get('cex_args', []))}"}, None


def _src_hashes(targets):
    out = []
    for t in targets:
        modname, _, qual = t.partition(":")
        try:
            obj = importlib.import_module(modname)
            for part in qual.split("."):
                if part:
                    obj = getattr(obj, part)
            src = inspect.getsource(obj)
            first = inspect.getsourcelines(obj)[1] if qual else 1
            out.append({"target": t, "file": inspect.getsourcefile(obj), "line": first, "sha256": hashlib.sha256(src.encode()).hexdigest()[:16]})
        except Exception as e:
            out.append({"target": t, "error": repr(e)})
    return out


def run_property(prop: str, tier: str, jobs: int, only=None, no_twin=False) -> int:
    t_start = time.time()
    seed = int(os.environ.get("VERIF_SEED", "0") or 0)
    module = "harness." + prop.lower()
    sys.path.insert(0, ROOT)
    mod = importlib.import_module(module)
    import sigma

    # development only: VERIF_DEV_REPO=<worktree> together with --only (which writes no evidence)
    dev = os.environ.get("VERIF_DEV_REPO") if only else None
    DEV_REPO[0] = dev
    assert list(sigma.__path__)[0] == (dev or "/repo") + "/sigma", sigma.__path__
    obs = [o for o in mod.OBLIGATIONS if tier == "thorough" or o.tier == "quick"]
    if only:
        obs = [o for o in obs if only in o.ident()]
    harness_errors = []
    violations = []
    notes = []
    replays = 0

    # 1. concrete self-checks (instances of the harness functions with known verdicts; they
    #    validate oracle and stubs, and pin regression witnesses) - plain CPython.
    sc = list(getattr(mod, "SELFCHECKS", []))
    sc_cases = [{"module": module, "function": fn, "env": {"VERIF_" + k: str(v) for k, v in env.items()}, "args": list(args), "kwargs": {}} for fn, env, args, _ in sc]
    sc_res = _replay_batch(sc_cases)
    replays += len(sc_res)
    for (fn, env, args, expect), case, r in zip(sc, sc_cases, sc_res):
        if r["ok"] is None:
            harness_errors.append(f"self-check {fn}{tuple(args)} could not run: {r.get('exception')}")
        elif r["ok"] != expect:
            if expect:
                # a pinned instance of the property fails on the real code
                violations.append({"case": dict(case, call=f"{fn}{tuple(args)}"), "how": "concrete self-check instance", "detail": r})
            else:
                harness_errors.append(f"self-check {fn}{tuple(args)}: oracle accepts an instance that must be rejected")

    # 2. symbolic obligations + reachability twins, in parallel
    tasks = []
    for o in obs:
        tasks.append((o, False))
        if o.twin and not no_twin:
            tasks.append((o, True))
    results = {}
    with cf.ThreadPoolExecutor(max_workers=jobs) as ex:
        futs = {ex.submit(_run_worker, o, module, tw): (o, tw) for o, tw in tasks}
        for fu in cf.as_completed(futs):
            o, tw = futs[fu]
            r = fu.result()
            results[(o.ident(), tw)] = r
            print(f"  [{r['verdict']:>14}] {'twin ' if tw else ''}{o.ident()} paths={r.get('paths')} wall={r.get('wall_s')}s {('- ' + r.get('message', '')[:160]) if r.get('verdict') not in ('confirmed',) and r.get('message') else ''}", flush=True)

    # 3. replay every counterexample on the real code (plain CPython)
    pend = []
    for o in obs:
        for tw in (False, True):
            r = results.get((o.ident(), tw))
            if r and r["verdict"] == "counterexample":
                case, err = _case_from(r, o, module, tw)
                if case is None:
                    r["replay"] = {"ok": None, "exception": err}
                else:
                    pend.append((o, tw, r, case))
    rr = _replay_batch([c for _, _, _, c in pend])
    replays += len(rr)
    for (o, tw, r, case), rep in zip(pend, rr):
        r["replay"] = rep
        r["case"] = case

    ob_records = []
    confirmed = 0
    inconclusive = 0
    paths = 0
    queries = 0
    solver_s = 0.0
    cpu_s = 0.0
    samples = []
    for o in obs:
        r = results[(o.ident(), False)]
        t = results.get((o.ident(), True))
        paths += int(r.get("paths") or 0) + int((t or {}).get("paths") or 0)
        queries += int(r.get("solver_queries") or 0) + int((t or {}).get("solver_queries") or 0)
        solver_s += float(r.get("solver_s") or 0) + float((t or {}).get("solver_s") or 0)
        cpu_s += float(r.get("cpu_s") or 0) + float((t or {}).get("cpu_s") or 0)
        status = r["verdict"]
        twin_ok = None
        if t is not None:
            if t["verdict"] == "counterexample" and t.get("replay", {}).get("ok") is False:
                twin_ok = True
            elif t["verdict"] in ("confirmed", "unreachable"):
                twin_ok = False
                harness_errors.append(f"vacuous harness: twin of {o.ident()} is {t['verdict']} ({t.get('message', '')[:200]})")
            elif t["verdict"] == "error":
                twin_ok = False
                harness_errors.append(f"twin of {o.ident()} failed: {t.get('message', '')[:300]}")
            else:
                twin_ok = None  # inconclusive twin (timeout / engine artefact)
        if status == "counterexample":
            rep = r.get("replay", {})
            if rep.get("ok") is False:
                violations.append({"case": r["case"], "how": f"{o.kind} counterexample replayed on the real code", "detail": rep})
            else:
                status = "inconclusive"
                notes.append(f"{o.ident()}: engine counterexample {r.get('call') or r.get('cex_args')} did not reproduce on the real code ({rep}) - inconclusive")
        elif status == "error":
            harness_errors.append(f"{o.ident()}: {r.get('message', '')[:400]}")
        elif status == "unreachable":
            harness_errors.append(f"{o.ident()}: unable to meet precondition - {r.get('message', '')[:200]}")
        if status == "confirmed" and twin_ok is False:
            status = "vacuous"
        if status == "confirmed" and twin_ok is None and t is not None:
            status = "inconclusive"
            notes.append(f"{o.ident()}: confirmed but reachability twin inconclusive")
        if status == "confirmed":
            confirmed += 1
        elif status == "inconclusive":
            inconclusive += 1
        rec = {
            "obligation": o.ident(),
            "engine": "crosshair" if o.kind == "xh" else "term-stub+z3",
            "search_grade": o.search,
            "status": status,
            "paths": r.get("paths"),
            "solver_queries": r.get("solver_queries"),
            "solver_s": r.get("solver_s"),
            "cpu_s": r.get("cpu_s"),
            "wall_s": r.get("wall_s"),
            "timeout_s": o.timeout,
            "twin": None if t is None else {"verdict": t["verdict"], "witness": t.get("call") or t.get("cex_args"), "replayed": t.get("replay", {}).get("ok") is False},
        }
        if o.note:
            rec["note"] = o.note
        if r.get("samples"):
            rec["samples"] = r["samples"][:5]
        if status != "confirmed" and r.get("message"):
            rec["message"] = r["message"][:300]
        ob_records.append(rec)
        if t is not None and (t.get("call") or t.get("cex_args")) and len(samples) < 12:
            samples.append({"obligation": o.ident(), "reachability_witness": t.get("call") or t.get("cex_args")})

    # 4. known findings: witnesses must still reproduce; print KNOWN-FINDING for open ones
    kf_lines = []
    kf = [e for e in known.entries() if e["property"] == prop]
    kf_cases = [{"module": e["module"], "function": e["function"], "env": {"VERIF_" + k: str(v) for k, v in e.get("env", {}).items()}, "args": e["args"], "kwargs": {}} for e in kf]
    kf_res = _replay_batch(kf_cases)
    replays += len(kf_res)
    kf_records = []
    for e, r in zip(kf, kf_res):
        reproduces = r["ok"] is False
        kf_records.append({"key": e["key"], "status": e["status"], "witness": e["args"], "reproduces": reproduces, "what": e["what"]})
        if e["status"] == "open":
            if reproduces:
                kf_lines.append(f"KNOWN-FINDING: property={prop} {e['what']} [key={e['key']} witness={e['function']}{tuple(e['args'])}]")
            else:
                notes.append(f"known finding {e['key']} no longer reproduces (witness holds or could not run: {r})")
        elif e["status"] == "fixed" and reproduces:
            # a repaired defect is back: report it like any other violation
            violations.append({"case": dict(kf_cases[kf.index(e)], call=f"{e['function']}{tuple(e['args'])}"), "how": f"regression of fixed finding {e['key']}", "detail": r})

    # 5. report
    os.makedirs(REPLAY_DIR, exist_ok=True)
    vio_lines = []
    seen = set()
    for i, v in enumerate(violations):
        case = dict(v["case"])
        case["property"] = prop
        case["how"] = v["how"]
        case["observed"] = v["detail"]
        key = json.dumps([case["function"], case.get("env"), case.get("args"), case.get("kwargs")], sort_keys=True, default=str)
        if key in seen:
            continue
        seen.add(key)
        h = hashlib.sha256(key.encode()).hexdigest()[:10]
        path = os.path.join(REPLAY_DIR, f"{prop}-{case['function']}-{h}.json")
        with open(path, "w") as f:
            json.dump(case, f, indent=1, default=str)
        vio_lines.append(f"VIOLATION property={prop} replay={path}")
        print(f"  violation: {case.get('call')} env={case.get('env')} :: {json.dumps(v['detail'], default=str)[:300]}")
        if len(samples) < 20:
            samples.append({"violation": case.get("call"), "env": case.get("env")})
    if not samples:
        samples = [{"obligation": o.ident()} for o in obs[:5]] or [{"note": "no obligations selected"}]

    wall = round(time.time() - t_start, 2)
    evidence = {
        "property_id": prop,
        "tier": tier,
        "seed": seed,
        "level": "model_checking",
        "coverage": {
            "states": max(paths, 1),
            "transitions": max(queries, 1),
            "traces_validated_against_impl": replays,
            "samples": samples,
            "obligations": len(obs),
            "discharged": confirmed,
            "inconclusive": inconclusive,
            "exhaustive": False,
            "explanation": "states = execution paths explored symbolically (CrossHair) or token-execution profiles (term-stub); transitions = SMT solver queries issued; "
            "each 'confirmed' obligation is the solver's verdict over ALL inputs within the bound stated in `bounds`, nothing is claimed outside it; "
            "'inconclusive' obligations exhausted their time budget and are NOT counted as discharged.",
            "functions_encoded": _src_hashes(getattr(mod, "TARGETS", [])),
            "bounds": getattr(mod, "BOUNDS", {}),
            "solver_s": round(solver_s, 2),
            "engine_cpu_s": round(cpu_s, 2),
            "obligation_records": ob_records,
            "known_findings": kf_records,
            "selfchecks": len(sc),
            "notes": notes,
            "harness_errors": harness_errors,
            "repo_state": _repo_state(),
            "trusted_base": ["CrossHair 0.0.110 proxy semantics", "z3 (z3-solver wheel)", "reference models under /verif/ref and in the harness module", "stubs listed in assumptions"],
        },
        "assumptions": list(getattr(mod, "ASSUMPTIONS", [])),
        "wall_s": wall,
        "violations": len(vio_lines),
    }
    os.makedirs(EVID, exist_ok=True)
    if not only:
        with open(os.path.join(EVID, f"{prop}.json"), "w") as f:
            json.dump(evidence, f, indent=1, default=str)
        if tier == "thorough":  # kept next to the evidence of the latest (usually quick) run
            os.makedirs(os.path.join(EVID, "thorough"), exist_ok=True)
            with open(os.path.join(EVID, "thorough", f"{prop}.json"), "w") as f:
                json.dump(evidence, f, indent=1, default=str)
    for l in kf_lines:
        print(l)
    for n in notes:
        print("  note:", n)
    print(f"{prop} tier={tier}: obligations={len(obs)} confirmed={confirmed} inconclusive={inconclusive} paths={paths} solver_queries={queries} solver_s={solver_s:.1f} replays={replays} wall={wall}s")
    if vio_lines:
        for l in vio_lines:
            print(l)
        return 1
    if harness_errors:
        for h in harness_errors:
            print("HARNESS-ERROR:", h)
        return 3
    return 0


def main(argv=None) -> int:
    ap = argparse.ArgumentParser()
    ap.add_argument("prop")
    ap.add_argument("--tier", default=os.environ.get("VERIF_TIER", "quick"), choices=["quick", "thorough"])
    ap.add_argument("--jobs", type=int, default=int(os.environ.get("VERIF_JOBS", "16")))
    ap.add_argument("--only", default=None, help="substring of obligation identifiers (development; does not write evidence)")
    ap.add_argument("--no-twin", action="store_true")
    a = ap.parse_args(argv)
    return run_property(a.prop.upper(), a.tier, a.jobs, a.only, a.no_twin)


if __name__ == "__main__":
    sys.exit(main())
