"""One term-stub / direct-z3 obligation = one process.

usage: python -m vlib.z3_worker <module> <function> <timeout_s>

<function>() runs the real pySigma function on token stubs (or emits a solver query from the
code's output on this run), discharges the z3 queries and returns a dict
  {verdict: confirmed|counterexample|inconclusive|error, paths, solver_queries, solver_s,
   message, cex_args (arguments for the obligation's replay function), samples}
"""
import importlib
import json
import os
import sys
import time
import traceback


def main() -> None:
    modname, fname, tmo = sys.argv[1], sys.argv[2], float(sys.argv[3])
    t0 = time.time()
    c0 = time.process_time()
    out = {"module": modname, "function": fname, "timeout_s": tmo}
    try:
        mod = importlib.import_module(modname)
        res = getattr(mod, fname)(tmo)
        out.update(res)
    except Exception as e:
        out["verdict"] = "error"
        out["message"] = "".join(traceback.format_exception_only(type(e), e)).strip()
        out["traceback"] = traceback.format_exc()[-2000:]
    out["wall_s"] = round(time.time() - t0, 2)
    out["cpu_s"] = round(time.process_time() - c0, 2)
    sys.stdout.write("\nXHRESULT " + json.dumps(out, default=str) + "\n")
    sys.stdout.flush()
    os._exit(0)


if __name__ == "__main__":
    main()
