"""Instantiation parameters of harness functions.

A harness function is instantiated by environment variables VERIF_<NAME>; they are read at
*call* time (not import time) so that one process can replay several instantiations.
`P` is also used inside PEP-316 `pre:` lines, which CrossHair evaluates in the harness
module's namespace.
"""
import os


def P(name: str, default: int = 0) -> int:
    return int(os.environ.get("VERIF_" + name, default))


def PS(name: str, default: str = "") -> str:
    return os.environ.get("VERIF_" + name, default)


def twin() -> bool:
    """Reachability twin: the harness forces its verdict to False when this is on."""
    return os.environ.get("VERIF_TWIN", "0") == "1"


def fin(ok) -> bool:
    """Final verdict of a harness body. In twin mode the verdict is forced to False so that
    the engine must produce a (replayable) witness that the end of the harness is reachable."""
    if twin():
        return False
    return bool(ok)


def concrete_section():
    """Context manager for a harness section that only handles *concrete* values (selectors were
    already realised by explicit branching): CrossHair's tracing is switched off inside, so the
    real code runs at native speed. Outside CrossHair (replay) it is a no-op."""
    import contextlib

    try:
        from crosshair.tracers import NoTracing, is_tracing

        if is_tracing():
            return NoTracing()
    except Exception:
        pass
    return contextlib.nullcontext()
