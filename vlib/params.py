"""Instantiation parameters of harness functions.

A harness function is instantiated by environment variables VERIF_<NAME>; they are read at
*call* time (not import time) so that one process can replay several instantiations.
`P` is also used inside PEP-316 `pre:` lines, which CrossHair evaluates in the harness
module's namespace.
"""
import os


from crosshair.tracers import NoTracing

_cache = {}


def clear_cache() -> None:
    """The replay driver changes the environment between cases of one process."""
    _cache.clear()


def P(name: str, default: int = 0) -> int:
    # untraced: dict / os.environ operations are very slow under CrossHair's opcode tracing
    with NoTracing():
        v = _cache.get(name)
        if v is None:
            e = os.environ.get("VERIF_" + name)
            v = (int(e),) if e is not None else (None,)
            _cache[name] = v
        return default if v[0] is None else v[0]


def PS(name: str, default: str = "") -> str:
    with NoTracing():
        e = os.environ.get("VERIF_" + name)
        return default if e is None else e


def twin() -> bool:
    """Reachability twin: the harness forces its verdict to False when this is on."""
    return P("TWIN", 0) == 1


def fin(ok) -> bool:
    """Final verdict of a harness body. In twin mode the verdict is forced to False so that
    the engine must produce a (replayable) witness that the end of the harness is reachable."""
    if twin():
        return False
    return bool(ok)


def concrete_section():
    """Context manager for a harness section that only handles *concrete* values (selectors were
    already realised by explicit branching): CrossHair's tracing is switched off inside, so the
    real code runs at native speed. Outside CrossHair (replay) it is a no-op."""
    import contextlib

    try:
        from crosshair.tracers import NoTracing, is_tracing

        if is_tracing():
            return NoTracing()
    except Exception:
        pass
    return contextlib.nullcontext()


def sel(x, n: int) -> int:
    """Realise a symbolic selector 0 <= x < n into a concrete int by binary search (log2(n) forks
    instead of n equality tests).  Exhaustive: every value is reached on exactly one path."""
    lo, hi = 0, n
    while hi - lo > 1:
        mid = (lo + hi) // 2
        if x < mid:
            hi = mid
        else:
            lo = mid
    return lo


def selb(b) -> bool:
    """Realise a symbolic bool."""
    return True if b else False
