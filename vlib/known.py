"""Known findings (read-only at run time).

/verif/known_findings.json is a list of entries
  {property, key, status: "open"|"fixed", module, function, env, args, what, commit?}
An *open* entry is a genuine pySigma defect that was reproduced on the real code and not
repaired.  The harness that found it excludes exactly the trigger condition of that one defect
from its search (so that any other violation of the same property is still reported) by writing
    pre: not excluded("<key>", <trigger predicate over the symbolic inputs>)
`excluded` is the identity on the predicate while the entry is open and False otherwise - a
"fixed" entry (or a removed one) suppresses nothing.
"""
import json
import os

_PATH = os.path.join(os.path.dirname(os.path.dirname(os.path.abspath(__file__))), "known_findings.json")
_cache = None


def entries():
    global _cache
    if _cache is None:
        try:
            with open(_PATH) as f:
                _cache = json.load(f)
        except FileNotFoundError:
            _cache = []
    return _cache


_open = {}


def is_open(key: str) -> bool:
    from crosshair.tracers import NoTracing

    with NoTracing():
        v = _open.get(key)
        if v is None:
            v = False
            for e in entries():
                if e["key"] == key:
                    v = e.get("status") == "open"
            _open[key] = v
        return v


def excluded(key: str, trigger) -> bool:
    if not is_open(key):
        return False
    return trigger
