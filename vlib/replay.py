"""Replay of counterexamples / witnesses against the real code with plain CPython.

usage: python -m vlib.replay <file.json> [<file.json> ...]      (human use)
       python -m vlib.replay --batch <cases.json>               (used by the runner)

A case is {module, function, env, args, kwargs}.  The harness function is imported from
/verif/harness and called with the concrete arguments; no CrossHair tracing is active, the
pySigma code under /repo runs as it would for any user.  Outcome per case:
  ok=True   the harness returned a truthy verdict (property instance holds)
  ok=False  the harness returned a falsy verdict or raised (property instance violated)
"""
import ast
import importlib
import json
import os
import sys
import traceback


def parse_call(call: str):
    """'f(1, s = "x")' -> ([1], {'s': 'x'}) using literal evaluation only."""
    node = ast.parse(call.strip(), mode="eval").body
    if not isinstance(node, ast.Call):
        raise ValueError("not a call: " + call)
    args = [ast.literal_eval(a) for a in node.args]
    kwargs = {k.arg: ast.literal_eval(k.value) for k in node.keywords}
    return args, kwargs


def run_case(case: dict) -> dict:
    saved = dict(os.environ)
    try:
        for k in [k for k in os.environ if k.startswith("VERIF_") and k not in ("VERIF_SEED", "VERIF_TIER")]:
            del os.environ[k]
        os.environ.update({k: str(v) for k, v in case.get("env", {}).items()})
        from vlib import params

        params.clear_cache()
        mod = importlib.import_module(case["module"])
        fn = getattr(mod, case["function"])
        try:
            r = fn(*case.get("args", []), **case.get("kwargs", {}))
            return {"ok": bool(r), "result": repr(r)[:300]}
        except Exception as e:
            return {
                "ok": False,
                "exception": "".join(traceback.format_exception_only(type(e), e)).strip()[:500],
                "traceback": traceback.format_exc()[-1500:],
            }
    finally:
        os.environ.clear()
        os.environ.update(saved)


def main() -> None:
    if sys.argv[1] == "--batch":
        cases = json.load(open(sys.argv[2]))
        res = [run_case(c) for c in cases]
        sys.stdout.write("\nREPLAYRESULT " + json.dumps(res) + "\n")
        return
    rc = 0
    for path in sys.argv[1:]:
        case = json.load(open(path))
        r = run_case(case)
        print(path, "->", "property instance HOLDS (not reproduced)" if r["ok"] else "VIOLATED (reproduced)")
        print(json.dumps(r, indent=1))
        if not r["ok"]:
            rc = 1
    sys.exit(rc)


if __name__ == "__main__":
    main()
