"""Obligation descriptors used by harness modules."""
from dataclasses import dataclass, field
from typing import Dict, Optional


@dataclass
class Ob:
    fn: str  # name of the harness function in the module
    env: Dict[str, object] = field(default_factory=dict)  # instantiation (VERIF_<K>=v)
    timeout: int = 60  # CrossHair per-condition budget (CPU seconds) / z3 budget
    tier: str = "quick"  # "quick": runs in both tiers; "thorough": thorough tier only
    kind: str = "xh"  # "xh": CrossHair over the real code; "z3": term-stub / direct z3 obligation
    twin: bool = True  # run the reachability twin (VERIF_TWIN=1) as vacuity guard
    search: bool = False  # search-grade: not expected to exhaust its space; reported separately
    note: str = ""
    replay_fn: Optional[str] = None  # z3 kind: function that replays a model on the real code

    def ident(self) -> str:
        e = ",".join(f"{k}={v}" for k, v in sorted(self.env.items()))
        return f"{self.fn}[{e}]" if e else self.fn

    def full_env(self) -> Dict[str, str]:
        return {"VERIF_" + k: str(v) for k, v in self.env.items()}
