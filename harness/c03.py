"""C03 - value modifiers produce exactly the values the specification defines.

Engine E1.  Symbolic: the plain value (string from character selectors over an alphabet with
wildcards, backslash, percent, dashes/slashes at word and non-word boundaries, space, dot and a
non-ASCII letter; or a number / bool / null; single or 2-element list) and the modifier chain
(selector into a chain table: every single modifier, curated pairs, triples and quadruples,
admissible and inadmissible).  The real SigmaDetectionItem.from_mapping runs per path; the oracle
is the table-driven reference in /verif/ref/modifiers.py: equal values, value linking and negation,
or - for an inadmissible chain - a SigmaError and nothing else.
"""
from ref import modifiers as R
from ref.sigmastr import M, S
from sigma.conditions import ConditionAND, ConditionOR
from sigma.exceptions import SigmaError
from sigma.rule.detection import SigmaDetectionItem
from sigma.types import (
    Placeholder,
    SigmaBool,
    SigmaCasedString,
    SigmaCIDRExpression,
    SigmaCompareExpression,
    SigmaExists,
    SigmaExpansion,
    SigmaFieldReference,
    SigmaNull,
    SigmaNumber,
    SigmaRegularExpression,
    SigmaString,
    SigmaTimestampPart,
    SpecialChars,
)
from vlib.known import is_open
from vlib.obl import Ob
from vlib.params import P, concrete_section, fin, sel, selb

PROPERTY = "C03"
TARGETS = [
    "sigma.rule.detection:SigmaDetectionItem.from_mapping",
    "sigma.rule.detection:SigmaDetectionItem.apply_modifiers",
    "sigma.modifiers:SigmaModifier.apply",
    "sigma.modifiers:SigmaModifier.type_check",
    "sigma.modifiers:SigmaContainsModifier.modify",
    "sigma.modifiers:SigmaStartswithModifier.modify",
    "sigma.modifiers:SigmaEndswithModifier.modify",
    "sigma.modifiers:SigmaWindowsDashModifier.modify",
    "sigma.modifiers:SigmaRegularExpressionModifier.modify",
    "sigma.modifiers:SigmaCIDRModifier.modify",
    "sigma.modifiers:SigmaFieldReferenceModifier.modify",
    "sigma.modifiers:SigmaExistsModifier.modify",
    "sigma.modifiers:SigmaExpandModifier.modify",
    "sigma.modifiers:SigmaAllModifier.modify",
    "sigma.modifiers:SigmaNegateModifier.modify",
    "sigma.types:SigmaString.replace_with_placeholder",
    "sigma.types:SigmaString.insert_placeholders",
    "sigma.types:SigmaString.__add__",
    "sigma.types:SigmaString.__radd__",
]
ALPH = ["a", "-", "/", " ", "*", "?", "\\", "%", ".", "é", "1"]
TYPED = [5, -1, 1.5, True, False, None, "10.0.0.0/8", "a%b%", "-a -b", "x/y-z", "%a%%b%", "a -b*c -d", "a\\.*", "a\\$", "a\\\\.*"]
SINGLES = sorted(R.KNOWN)
PAIRS = [
    "contains|all", "all|contains", "windash|contains", "contains|windash", "windash|contains|all", "cased|contains", "contains|cased", "cased|endswith", "cased|startswith",
    "re|i", "re|i|m", "re|i|m|s", "re|contains", "re|startswith", "re|endswith", "contains|re", "i|re", "re|cased", "cased|re", "re|expand", "expand|re",
    "expand|contains", "contains|expand", "expand|windash", "fieldref|contains", "fieldref|startswith", "fieldref|endswith", "contains|fieldref", "cidr|contains", "contains|cidr",
    "base64|contains", "base64offset|contains", "wide|base64", "wide|base64offset", "utf16|base64", "utf16be|base64offset|contains", "base64|base64",
    "exists|all", "all|exists", "neq|contains", "contains|neq", "neq|all", "lt|neq", "gt|all", "gte|contains", "hour|gt", "year|neq",
    "windash|cased", "cased|windash", "windash|base64offset", "startswith|endswith", "endswith|startswith", "contains|contains", "nosuch", "contains|nosuch",
    "windash|expand", "expand|cased|contains", "windash|contains|cased|all",
]
CHAINS = SINGLES + PAIRS
BOUNDS = {
    "values": f"strings of length <= 2 (quick) / 3 (thorough) over the alphabet {ALPH!r}, plus {len(TYPED)} typed / multi-character values; single value or 2-element list",
    "chains": f"{len(SINGLES)} single modifiers and {len(PAIRS)} chains of length 2..4 (admissible and inadmissible)",
    "outside": "other chains; longer strings; code points outside the alphabet (C04/C05 cover encodings and escaping on full Unicode)",
}
ASSUMPTIONS = [
    "windash: a parameter dash is '-' or '/' at the start of a literal run or after a non-word character and directly before a word character (spec wording: 'between word boundaries')",
    "regular expressions with placeholders (re|expand) are compared by their text only",
]


def canon(v):
    if isinstance(v, SigmaExpansion):
        return ("X", [canon(x) for x in v.values])
    if isinstance(v, SigmaString):
        toks = []
        for p in v.s:
            if isinstance(p, str):
                toks.extend(("c", ch) for ch in p)
            elif p == SpecialChars.WILDCARD_MULTI:
                toks.append(M)
            elif p == SpecialChars.WILDCARD_SINGLE:
                toks.append(S)
            elif isinstance(p, Placeholder):
                toks.append(("P", p.name))
        return ("S", isinstance(v, SigmaCasedString), tuple(toks))
    if isinstance(v, SigmaTimestampPart):
        return ("TS", v.timestamp_part.name.lower(), v.number)
    if isinstance(v, SigmaNumber):
        return ("N", v.number)
    if isinstance(v, SigmaBool):
        return ("B", v.boolean)
    if isinstance(v, SigmaNull):
        return ("null",)
    if isinstance(v, SigmaRegularExpression):
        flags = frozenset({"IGNORECASE": "i", "MULTILINE": "m", "DOTALL": "s"}[f.name] for f in v.flags)
        return ("RE", v.regexp.to_plain_regex(), flags)
    if isinstance(v, SigmaCIDRExpression):
        return ("CIDR", str(v.network))
    if isinstance(v, SigmaCompareExpression):
        return ("CMP", v.op.name.lower(), canon(v.number)[1:] if isinstance(v.number, SigmaTimestampPart) else v.number.number)
    if isinstance(v, SigmaFieldReference):
        return ("FR", v.field, v.starts_with, v.ends_with)
    if isinstance(v, SigmaExists):
        return ("EX", v.exists)
    return ("?", repr(v))


def norm_ref(v):
    if v[0] == "X":
        out = []
        for x in v[1]:
            n = norm_ref(x)
            if n[0] == "X":
                out.extend(n[1])
            else:
                out.append(n)
        return ("X", out)
    if v[0] == "S":
        return ("S", v[1], tuple(v[2]))
    if v[0] == "RE*":
        return ("RE", v[1], v[2])
    return v


def flatten_real(v):
    if v[0] == "X":
        out = []
        for x in v[1]:
            n = flatten_real(x)
            if n[0] == "X":
                out.extend(n[1])
            else:
                out.append(n)
        return ("X", out)
    return v


def check(chain: str, plain, field="f") -> bool:
    mods = chain.split("|") if chain else []
    key = (field or "") + "".join("|" + m for m in mods)
    values = plain if isinstance(plain, list) else [plain]
    try:
        want = R.apply_chain(field, mods, values)
        reject = False
    except R.Reject:
        reject = True
    try:
        item = SigmaDetectionItem.from_mapping(key if key else None, plain)
    except SigmaError:
        return reject
    if reject:
        return False
    got_vals = [flatten_real(canon(v)) for v in item.value]
    want_vals = [norm_ref(v) for v in want[0]]
    link = "and" if item.value_linking is ConditionAND else "or" if item.value_linking is ConditionOR else "?"
    return got_vals == want_vals and link == want[1] and bool(item.negated) == want[2]


def c03_chain(ci: int, n: int, k0: int, k1: int, k2: int, ti: int, as_list: bool, kw: bool) -> bool:
    """
    pre: P("CLO", 0) <= ci < min(len(CHAINS), P("CHI", 9999))
    pre: 0 <= n <= P("LEN", 2) + 1
    pre: 0 <= k0 < len(ALPH) and 0 <= k1 < len(ALPH) and 0 <= k2 < len(ALPH)
    pre: 0 <= ti < len(TYPED)
    pre: n >= 3 or k2 == 0
    pre: n >= 2 or k1 == 0
    pre: n >= 1 or k0 == 0
    pre: n == P("LEN", 2) + 1 or ti == 0
    post: _
    """
    chain = CHAINS[sel(ci, len(CHAINS))]
    maxlen = P("LEN", 2)
    nn = sel(n, maxlen + 2)
    if nn == maxlen + 1:
        plain = TYPED[sel(ti, len(TYPED))]
    else:
        ks = [k0, k1, k2]
        plain = ""
        for i in range(nn):
            plain += ALPH[sel(ks[i], len(ALPH))]
    lst = selb(as_list)
    keyword = selb(kw)
    with concrete_section():
        value = [plain, "zz"] if lst else plain
        ok = check(chain, value, None if keyword else "f")
    return fin(ok)


def c03_strict_backslash_before_placeholder() -> bool:
    """Witness form for known finding c03-expand-unescapes-twice: an escaped backslash followed by a placeholder."""
    from sigma.rule.detection import SigmaDetectionItem
    from sigma.types import Placeholder

    it = SigmaDetectionItem.from_mapping("f|expand", "C:\\\\%user%")  # YAML text C:\\%user% : literal backslash, placeholder
    parts = it.value[0].s
    return any(isinstance(p, Placeholder) for p in parts) and any(isinstance(p, str) and p.endswith("\\") for p in parts)


def c03_concrete(chain: str, plain_repr: str, field: str) -> bool:
    import ast

    return check(chain, ast.literal_eval(plain_repr), field or None)


NCH = len(CHAINS)
STEP = 6
OBLIGATIONS = (
    [Ob("c03_chain", {"CLO": lo, "CHI": lo + STEP, "LEN": 2}, 600) for lo in range(0, NCH, STEP)]
    + [Ob("c03_chain", {"CLO": lo, "CHI": lo + 2, "LEN": 3}, 3000, tier="thorough") for lo in range(0, NCH, 2)]
)

SELFCHECKS = [
    ("c03_concrete", {}, ("contains", "'a*'", "f"), True),
    ("c03_concrete", {}, ("windash", "'-a -b'", "f"), True),
    ("c03_concrete", {}, ("windash|contains|all", "['-a', 'x-y']", "f"), True),
    ("c03_concrete", {}, ("re|i|m", "'a.*b'", "f"), True),
    ("c03_concrete", {}, ("expand", "'\\\\%a%b%'", "f"), True),
    ("c03_concrete", {}, ("gt", "5", "f"), True),
    ("c03_concrete", {}, ("gt", "'x'", "f"), True),
    ("c03_concrete", {}, ("exists", "True", ""), True),
    ("c03_concrete", {}, ("cased|contains", "'Foo'", "f"), True),
]
