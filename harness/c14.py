"""C14 - pipelines compose in a defined order: priority, then stage, then position.

Engine E1.  Order-sensitive marker items make the composition order observable in the query text:
  transformation   field_name_suffix "_<tag>"        -> field name 'fA_x_y_z' spells the application order
  post-processing  embed prefix "<tag>[" suffix "]"  -> nesting spells the order per emitted query
  finalizer        concat prefix "<tag>{" ...        -> applied once on the whole output, in order
a. resolver: symbolic priorities of 4 named pipelines, symbolic subset and permutation of the spec
   list, optionally resolved twice with the same pipeline objects.
b. '+': symbolic bracketing / history (operand used before, operand already part of another sum,
   empty pipeline as left/right identity), compared with ONE pipeline defined with the concatenated
   items, by items/vars and by converting a probe rule.
c. backend stages: backend / user / output-format pipelines, output format given or omitted,
   1..2 rules with 1..2 conditions.
"""
import copy
import itertools

from backends.vbackend import VBackend
from sigma.collection import SigmaCollection
from sigma.processing.pipeline import ProcessingPipeline
from sigma.processing.resolver import ProcessingPipelineResolver
from sigma.rule import SigmaRule
from vlib.obl import Ob
from vlib.params import P, concrete_section, fin, sel, selb

PROPERTY = "C14"
TARGETS = [
    "sigma.processing.pipeline:ProcessingPipeline.__add__",
    "sigma.processing.pipeline:ProcessingPipeline.__radd__",
    "sigma.processing.pipeline:ProcessingPipeline._clear_pipeline",
    "sigma.processing.pipeline:ProcessingPipeline.apply",
    "sigma.processing.pipeline:ProcessingPipeline.postprocess_query",
    "sigma.processing.pipeline:ProcessingPipeline.finalize",
    "sigma.processing.resolver:ProcessingPipelineResolver.resolve",
    "sigma.conversion.base:Backend.init_processing_pipeline",
    "sigma.conversion.base:Backend.finalize_query",
    "sigma.conversion.base:Backend.finalize",
]
BOUNDS = {
    "resolver": "4 named pipelines, priorities 0..1 (quick) / 0..2 (thorough) each (ties included), every non-empty subset in every order, resolved once or twice; also with pipelines that have no transformation items (NOITEMS=1) and with pipelines whose declared names are all equal, i.e. ordered only by the identifier they are resolved by (SAMENAME=1)",
    "addition": "3 operands + empty pipeline, 10 bracketing/history variants (incl. a post-processing-only operand reused in a later sum while the first backend keeps converting)",
    "stages": "backend/user/output-format pipelines present or absent, output format omitted / 'default' / 'alt', 1..2 rules x 1..2 conditions",
    "format history": "convert() over 1..2 rules or convert_rule() with one output format, then convert_rule() with another (3 x 3 formats), backend / user pipelines present or absent",
    "outside": "more than 4 pipelines; pipelines loaded from directories (file I/O)",
}
ASSUMPTIONS = ["order of application is observed through order-sensitive marker items (suffix / embed / concat)"]


def pipe_yaml(tag: str, priority: int = 0, with_post=True, with_fin=True):
    y = f"""
name: {"same" if P("SAMENAME", 0) else tag}
priority: {priority}
vars:
  last: {tag}
  only_{tag}: {tag}
"""
    if not P("NOITEMS", 0):  # NOITEMS=1: pipelines that consist of post-processing, finalizers and variables only
        y += f"""transformations:
  - id: t_{tag}
    type: field_name_suffix
    suffix: _{tag}
"""
    if with_post:
        y += f"""postprocessing:
  - id: p_{tag}
    type: embed
    prefix: "{tag}["
    suffix: "]"
"""
    if with_fin:
        y += f"""finalizers:
  - type: concat
    separator: "|"
    prefix: "{tag}{{"
    suffix: "}}"
"""
    return y


def mk(tag, priority=0):
    return ProcessingPipeline.from_yaml(pipe_yaml(tag, priority))


def concat_pipeline(tags):
    """ONE pipeline defined with the items of the given pipelines in sequence (the reference)."""
    d = {"name": "ref", "priority": 0, "vars": {}, "transformations": [], "postprocessing": [], "finalizers": []}
    for t in tags:
        d["vars"].update({"last": t, f"only_{t}": t})
        if not P("NOITEMS", 0):
            d["transformations"].append({"id": f"t_{t}", "type": "field_name_suffix", "suffix": f"_{t}"})
        d["postprocessing"].append({"id": f"p_{t}", "type": "embed", "prefix": f"{t}[", "suffix": "]"})
        d["finalizers"].append({"type": "concat", "separator": "|", "prefix": f"{t}{{", "suffix": "}"})
    return ProcessingPipeline.from_dict(d)


def probe_rules(nrules=1, nconds=1):
    rules = []
    for i in range(nrules):
        conds = ["sel", "not sel"][:nconds]
        rules.append(SigmaRule.from_dict({"title": f"r{i}", "logsource": {"category": "c"}, "detection": {"sel": {"fA": f"v{i}"}, "condition": conds if nconds > 1 else "sel"}}))
    return rules


class PlainBackend(VBackend):
    backend_processing_pipeline = ProcessingPipeline()
    output_format_processing_pipeline = {"default": ProcessingPipeline()}


def convert_with(pipeline, nrules=1, nconds=1):
    cls = type("B", (PlainBackend,), {"backend_processing_pipeline": ProcessingPipeline(), "output_format_processing_pipeline": {"default": ProcessingPipeline()}})
    b = cls(pipeline)
    return b.convert(SigmaCollection(probe_rules(nrules, nconds)))


def describe(p):
    return ([i.identifier for i in p.items], [i.identifier for i in p.postprocessing_items], [(f.prefix) for f in p.finalizers], dict(p.vars))


# ---------------------------------------------------------------- a. resolver
NAMES = ["a", "b", "c", "d"]


def check_resolver(prios, spec, twice: bool) -> bool:
    pls = {n: mk(n, prios[i]) for i, n in enumerate(NAMES)}
    res = ProcessingPipelineResolver(pls)
    want_order = sorted(spec, key=lambda n: (prios[NAMES.index(n)], n))
    r1 = res.resolve(list(spec))
    if twice:
        d1 = describe(r1)
        out1 = convert_with(r1)
        r1 = res.resolve(list(spec))
        if describe(r1) != d1 or convert_with(r1) != out1:
            return False
    ref = concat_pipeline(want_order)
    if describe(r1) != describe(ref):
        return False
    return convert_with(r1, 2, 2) == convert_with(ref, 2, 2)


ARRANGEMENTS = [list(perm) for k in range(1, 5) for perm in itertools.permutations(NAMES, k)]  # 64 spec lists


def c14a_resolver(p0: int, p1: int, p2: int, p3: int, ai: int, twice: bool) -> bool:
    """
    pre: 0 <= p0 <= P("PMAX", 1) and 0 <= p1 <= P("PMAX", 1) and 0 <= p2 <= P("PMAX", 1) and 0 <= p3 <= P("PMAX", 1)
    pre: 0 <= ai < len(ARRANGEMENTS)
    post: _
    """
    spec = ARRANGEMENTS[sel(ai, len(ARRANGEMENTS))]
    ps = [p0, p1, p2, p3]
    prios = []
    for i in range(4):
        if NAMES[i] in spec:
            prios.append(sel(ps[i], P("PMAX", 1) + 1))
        else:
            if ps[i] != 0:
                return True  # canonical form: priority of an unused pipeline is irrelevant
            prios.append(0)
    tw = selb(twice)
    with concrete_section():
        ok = check_resolver(prios, spec, tw)
    return fin(ok)


# ---------------------------------------------------------------- b. addition
def check_add(variant: int, probe_shape: int) -> bool:
    p1, p2, p3 = mk("x"), mk("y"), mk("z")
    e = ProcessingPipeline()
    nr, nc = [(1, 1), (2, 1), (1, 2), (2, 2)][probe_shape]
    if variant == 0:
        got, tags = (p1 + p2) + p3, ["x", "y", "z"]
    elif variant == 1:
        got, tags = p1 + (p2 + p3), ["x", "y", "z"]
    elif variant == 2:
        got, tags = sum([p1, p2, p3]), ["x", "y", "z"]
    elif variant == 3:  # empty pipeline is left and right identity
        got, tags = (e + p1) + (p2 + ProcessingPipeline()), ["x", "y"]
    elif variant == 4:  # operand used for a conversion before
        convert_with(p1)
        got, tags = p1 + p2, ["x", "y"]
    elif variant == 5:  # operand was already part of another sum
        _ = p1 + p2
        got, tags = p1 + p3, ["x", "z"]
    elif variant == 6:  # right operand was already part of another sum
        _ = p2 + p3
        got, tags = p1 + p3, ["x", "z"]
    elif variant in (8, 9):
        # an operand that contributes only query post-processing (no transformation items) and reads the
        # pipeline's variables; it is reused in a second sum after the first one was built
        tpl = {"name": "o", "priority": 0, "postprocessing": [{"id": "p_o", "type": "template", "template": "{{ pipeline.vars.last }}={{ query }}"}]}
        o = ProcessingPipeline.from_dict(copy.deepcopy(tpl))
        a = p1 + o
        cls = type("B", (PlainBackend,), {"backend_processing_pipeline": ProcessingPipeline(), "output_format_processing_pipeline": {"default": ProcessingPipeline()}})
        ba = cls(a)
        first = ba.convert(SigmaCollection(probe_rules(nr, nc)))  # builds ba's combined pipeline
        b = p2 + o  # the shared operand is taken over by a second sum ...
        bb = cls(b)
        if variant == 9:
            bb.convert(SigmaCollection(probe_rules(nr, nc)))  # ... which is also used
        again = [q for r in probe_rules(nr, nc) for q in ba.convert_rule(r)]  # ba converts further rules with the pipeline it built
        second = bb.convert(SigmaCollection(probe_rules(nr, nc)))
        for t, got_first, got_again in (("x", first, again), ("y", second, None)):
            d = {"name": "ref", "priority": 0, "vars": {"last": t, f"only_{t}": t}, "transformations": [] if P("NOITEMS", 0) else [{"id": f"t_{t}", "type": "field_name_suffix", "suffix": f"_{t}"}],
                 "postprocessing": [{"id": f"p_{t}", "type": "embed", "prefix": f"{t}[", "suffix": "]"}, copy.deepcopy(tpl["postprocessing"][0])],
                 "finalizers": [{"type": "concat", "separator": "|", "prefix": f"{t}{{", "suffix": "}"}]}
            ref = ProcessingPipeline.from_dict(copy.deepcopy(d))
            if got_first != convert_with(ref, nr, nc):
                return False
            if got_again is not None:
                rb = cls(ProcessingPipeline.from_dict(copy.deepcopy(d)))
                rb.convert(SigmaCollection(probe_rules(nr, nc)))
                if got_again != [q for r in probe_rules(nr, nc) for q in rb.convert_rule(r)]:
                    return False
        return True
    else:  # None on the right
        got, tags = (p1 + None) + p2, ["x", "y"]
    ref = concat_pipeline(tags)
    if describe(got) != describe(ref):
        return False
    return convert_with(got, nr, nc) == convert_with(ref, nr, nc)


def c14b_add(variant: int, shape: int) -> bool:
    """
    pre: 0 <= variant < 10
    pre: 0 <= shape < 4
    post: _
    """
    v = 0
    for j in range(10):
        if variant == j:
            v = j
    s = 0
    for j in range(4):
        if shape == j:
            s = j
    with concrete_section():
        ok = check_add(v, s)
    return fin(ok)


# ---------------------------------------------------------------- c. backend stages
def check_stages(has_b: bool, has_u: bool, has_o: bool, fmt: int, nr: int, nc: int) -> bool:
    attrs = {
        "backend_processing_pipeline": mk("B") if has_b else ProcessingPipeline(),
        "output_format_processing_pipeline": {"default": mk("O") if has_o else ProcessingPipeline(), "alt": mk("A") if has_o else ProcessingPipeline()},
        "formats": {"default": "d", "alt": "a"},
        "finalize_query_alt": lambda self, rule, query, index, state: query,
        "finalize_output_alt": lambda self, queries: list(queries),
    }
    cls = type("StageBackend", (VBackend,), attrs)
    b = cls(mk("U") if has_u else None)
    fmt_arg = [None, "default", "alt"][fmt]
    coll = SigmaCollection(probe_rules(nr, nc))
    out = b.convert(coll) if fmt_arg is None else b.convert(coll, fmt_arg)
    tags = (["B"] if has_b else []) + (["U"] if has_u else []) + ((["A"] if fmt == 2 else ["O"]) if has_o else [])
    ref = concat_pipeline(tags)
    want = convert_with(ref, nr, nc)
    if out != want:
        return False
    v = b.last_processing_pipeline.vars
    return v.get("backend") == cls.name and v.get("output_format") == (fmt_arg or "default") and (not tags or v.get("last") == tags[-1])


def check_format_history(has_b: bool, has_u: bool, f1: int, f2: int, nr: int) -> bool:
    """convert()/convert_rule() with output format f1, then convert_rule() with f2 on the same backend: the second
    call runs backend pipeline, user pipeline and the pipeline of ITS output format, like a fresh backend does."""
    attrs = {
        "backend_processing_pipeline": mk("B") if has_b else ProcessingPipeline(),
        "output_format_processing_pipeline": {"default": mk("O"), "alt": mk("A")},
        "formats": {"default": "d", "alt": "a"},
        "finalize_query_alt": lambda self, rule, query, index, state: query,
        "finalize_output_alt": lambda self, queries: list(queries),
    }
    cls = type("StageBackend", (VBackend,), attrs)
    fmts = [None, "default", "alt"]
    b = cls(mk("U") if has_u else None)
    if nr == 0:
        b.convert_rule(probe_rules(1, 1)[0], fmts[f1])
    else:
        coll = SigmaCollection(probe_rules(nr, 1))
        b.convert(coll) if fmts[f1] is None else b.convert(coll, fmts[f1])
    got = [q for r in probe_rules(2, 2) for q in b.convert_rule(r, fmts[f2])]
    fresh = cls(mk("U") if has_u else None)
    want = [q for r in probe_rules(2, 2) for q in fresh.convert_rule(r, fmts[f2])]
    return got == want and b.last_processing_pipeline.vars.get("output_format") == (fmts[f2] or "default")


def c14c_format_history_concrete(has_b: bool, has_u: bool, f1: int, f2: int, nr: int) -> bool:
    return check_format_history(has_b, has_u, f1, f2, nr)


def c14c_format_history(has_b: bool, has_u: bool, f1: int, f2: int, nr: int) -> bool:
    """
    pre: 0 <= f1 < 3 and 0 <= f2 < 3
    pre: 0 <= nr < 3
    post: _
    """
    hb, hu, a, b_, n = selb(has_b), selb(has_u), sel(f1, 3), sel(f2, 3), sel(nr, 3)
    with concrete_section():
        ok = check_format_history(hb, hu, a, b_, n)
    return fin(ok)


def c14c_stages(has_b: bool, has_u: bool, has_o: bool, fmt: int, nr: int, nc: int) -> bool:
    """
    pre: 0 <= fmt < 3
    pre: 1 <= nr <= 2 and 1 <= nc <= 2
    post: _
    """
    f = 0
    for j in range(3):
        if fmt == j:
            f = j
    r = 2 if nr == 2 else 1
    c = 2 if nc == 2 else 1
    hb = True if has_b else False
    hu = True if has_u else False
    ho = True if has_o else False
    with concrete_section():
        ok = check_stages(hb, hu, ho, f, r, c)
    return fin(ok)


def c14a_concrete(p0: int, p1: int, p2: int, p3: int, spec_csv: str, twice: bool) -> bool:
    return check_resolver([p0, p1, p2, p3], spec_csv.split(","), twice)


OBLIGATIONS = [
    Ob("c14a_resolver", {"PMAX": 1}, 900),
    Ob("c14a_resolver", {"PMAX": 1, "NOITEMS": 1}, 900),
    Ob("c14a_resolver", {"PMAX": 1, "SAMENAME": 1}, 900),
    Ob("c14b_add", {"NOITEMS": 1}, 300),
    Ob("c14c_stages", {"NOITEMS": 1}, 300),
    Ob("c14a_resolver", {"PMAX": 2}, 3000, tier="thorough"),
    Ob("c14a_resolver", {"PMAX": 2, "NOITEMS": 1}, 3000, tier="thorough"),
    Ob("c14b_add", {}, 300),
    Ob("c14c_stages", {}, 300),
    Ob("c14c_format_history", {}, 300),
]

SELFCHECKS = [
    ("c14a_concrete", {}, (0, 0, 0, 0, "b,a", False), True),
    ("c14a_concrete", {}, (2, 1, 1, 0, "a,b,c,d", True), True),
    ("c14b_add", {}, (0, 0), True),
    ("c14c_stages", {}, (True, True, True, 0, 2, 2), True),
]
