"""C08 - a failing rule never changes other rules' output; every query is accounted for.

Engine E1.  Symbolic: the kind of every rule of a 3-rule collection (ok with one / two conditions,
failing in the pipeline, unresolved placeholder, value unsupported by the backend, condition naming
a missing detection, output disabled, failing inside negated rendering, rules sharing condition text
and field names with their neighbours, ...) and the backend's collect_errors flag.  Each path
converts the collection with ONE backend + pipeline (real Backend.convert) and compares with
converting every rule alone with FRESH backend/pipeline/rule objects.
"""
import copy

from backends.vbackend import make_backend
from sigma.backends.test import TextQueryTestBackend
from sigma.collection import SigmaCollection
from sigma.exceptions import SigmaError
from sigma.processing.pipeline import ProcessingPipeline
from sigma.rule import SigmaRule
from vlib.obl import Ob
from vlib.params import P, concrete_section, fin, sel, selb

PROPERTY = "C08"
TARGETS = [
    "sigma.conversion.base:Backend.convert",
    "sigma.conversion.base:Backend.convert_rule",
    "sigma.conversion.base:Backend.init_processing_pipeline",
    "sigma.conversion.base:TextQueryBackend.finalize_query",
    "sigma.conversion.base:TextQueryBackend.not_equals_context_manager",
    "sigma.processing.pipeline:ProcessingPipeline.apply",
    "sigma.processing.tracking:FieldMappingTracking",
    "sigma.conditions:SigmaCondition.parse",
]
BOUNDS = {
    "collections": "3 rules; first two of any of 17 kinds (incl. a null keyword), third of 7 probe kinds (quick) / any kind (thorough); collect_errors on/off",
    "set-ups": "pipelines: none / mapping+state+failure+state-gated condition / strict field mapping; backends: shipped test backend, verification backend in NOT-as-not-equals mode",
    "correlation rules": "[A, correlation over A, B] in two orders: A of 5 kinds (fine / fails in the pipeline / fails in conversion / null keyword), generate on/off, the correlation rule itself failed by a pipeline item or not, collect_errors on/off",
    "outside": "more than 3 rules; correlation rules (C09/C10); deferred query parts",
}
ASSUMPTIONS = ["set-up (0,3) reads the fixed data file /verif/harness/data/users.txt through the real file_placeholders transformation (caller opt-in allow_external_sources=True)", "process-wide caches (condition parse cache, modifier type-hint cache) are cleared before each stand-alone conversion and once before the collection is converted", "'converting that rule alone' = Backend.convert(SigmaCollection([rule])) with a new backend, a new pipeline from the same YAML and a new rule object from the same document"]

PIPES = [
    None,
    """
name: p
priority: 10
transformations:
  - id: map
    type: field_name_mapping
    mapping:
      fA: mappedA
  - id: st
    type: set_state
    key: seen
    val: "yes"
    rule_conditions:
      - type: logsource
        category: marker
  - id: fail
    type: rule_failure
    message: failed by pipeline
    rule_conditions:
      - type: logsource
        category: failme
  - id: leak
    type: add_condition
    conditions:
      leak: "1"
    rule_conditions:
      - type: processing_state
        key: seen
        val: "yes"
""",
    """
name: strict
priority: 10
transformations:
  - id: map
    type: field_name_mapping
    mapping:
      fA: mappedA
      fB: mappedB
      fC: mappedC
  - id: strict
    type: strict_field_mapping_failure
""",
    """
name: ext
priority: 10
transformations:
  - id: users
    type: file_placeholders
    path: /verif/harness/data/users.txt
    filter: "^svc_"
  - id: map
    type: field_name_mapping
    mapping:
      fA: mappedA
""",
    """
name: fields
priority: 10
transformations:
  - id: sf
    type: set_field
    fields:
      - host
  - id: af
    type: add_field
    field: user
  - id: rf
    type: remove_field
    field: nosuch
postprocessing:
  - type: template
    template: '{{ query }} | table {{ rule.fields | join(",") }}'
""",
]

NK = 17
PROBES = [0, 8, 9, 10, 11, 14, 15]


def rule_doc(kind: int, i: int):
    d = {"title": f"r{i}", "logsource": {"category": "c"}, "detection": {"sel": {"fA": f"v{i}"}, "condition": "sel"}}
    det = d["detection"]
    if kind == 1:
        det["condition"] = ["sel", "not sel"]
    elif kind == 2:
        d["logsource"] = {"category": "failme"}
    elif kind == 3:
        det["sel"] = {"fA|expand": "%nope%"}
    elif kind == 4:
        det["sel"] = [True]
    elif kind == 5:
        det["condition"] = "sel and nosuch"
    elif kind == 7:
        det["sel"] = {"fA|expand": "%nope%"}
        det["condition"] = "not sel"
    elif kind == 8:
        det["sel"] = {"fA|startswith": f"v{i}"}
    elif kind == 9:
        det["condition"] = "not sel"
    elif kind == 10:
        det["f1"] = {"fB": f"x{i}"}
        det["f2"] = {"fC": f"y{i}"}
        det["condition"] = "sel and not (f1 or f2)"
    elif kind == 11:
        det["f1"] = {"fB": f"x{i}"}
        det["condition"] = "sel and not (f1 or f2)"
    elif kind == 12:
        d["logsource"] = {"category": "marker"}
    elif kind == 13:
        det["sel"] = {"other": f"v{i}"}
    elif kind == 14:
        det["sel"] = {"mappedA": f"v{i}"}
    elif kind == 15:
        det["sel"] = {"fA|expand": "%users%"}
    elif kind == 16:
        det["sel"] = [None]  # null keyword: can be loaded, cannot be converted
        det["condition"] = "not sel"
    return d


def make_rule(kind, i):
    r = SigmaRule.from_dict(copy.deepcopy(rule_doc(kind, i)))
    if kind == 6:
        r.disable_output()
    return r


def new_backend(bk: int, pipe: int, collect: bool):
    pl = ProcessingPipeline.from_yaml(PIPES[pipe], allow_external_sources=(pipe == 3)) if PIPES[pipe] else None
    if bk == 0:
        return TextQueryTestBackend(pl, collect_errors=collect)
    b = make_backend(12)
    b.processing_pipeline = pl
    b.collect_errors = collect
    return b


def err_sig(e):
    return (type(e).__name__, str(e))


def clear_caches():
    from sigma.conditions import _parse_condition_string
    from sigma.modifiers import SigmaModifier

    _parse_condition_string.cache_clear()
    SigmaModifier._type_hint_cache.clear()


def check(kinds, collect: bool, bk: int, pipe: int) -> bool:
    # every rule alone, fresh objects (incl. process-wide caches)
    alone = []
    for i, k in enumerate(kinds):
        clear_caches()
        b = new_backend(bk, pipe, True)
        try:
            q = b.convert(SigmaCollection([make_rule(k, i)]))
        except SigmaError:
            return False  # collecting backend must not raise a Sigma error
        if len(b.errors) > 1 or (b.errors and q):
            return False
        alone.append((list(q), err_sig(b.errors[0][1]) if b.errors else None))
    # the collection, one backend
    clear_caches()
    rules = [make_rule(k, i) for i, k in enumerate(kinds)]
    b = new_backend(bk, pipe, collect)
    first_fail = next((i for i, a in enumerate(alone) if a[1] is not None), None)
    try:
        out = b.convert(SigmaCollection(rules))
    except SigmaError as e:
        return (not collect) and first_fail is not None and err_sig(e) == alone[first_fail][1]
    if not collect and first_fail is not None:
        return False
    want = [q for a in alone for q in a[0]]
    if list(out) != want:
        return False
    want_err = [(rules[i].title, a[1]) for i, a in enumerate(alone) if a[1] is not None]
    got_err = [(r.title, err_sig(e)) for r, e in b.errors]
    if got_err != want_err:
        return False
    for (r, _), i in zip(b.errors, [i for i, a in enumerate(alone) if a[1] is not None]):
        if r is not rules[i]:
            return False
    return True


def c08_isolation(k0: int, k1: int, k2: int, collect: bool) -> bool:
    """
    pre: P("K0LO", 0) <= k0 <= min(NK - 1, P("K0HI", 99))
    pre: 0 <= k1 < NK
    pre: 0 <= k2 < (NK if P("FULL", 0) else len(PROBES))
    post: _
    """
    ks = [k0, k1, k2]
    kinds = []
    for i in range(3):
        v = 0
        for j in range(NK):
            if ks[i] == j:
                v = j
        kinds.append(v)
    if not P("FULL", 0):
        kinds[2] = PROBES[kinds[2]]
    cc = True if collect else False
    with concrete_section():
        ok = check(kinds, cc, P("BK", 0), P("PIPE", 1))
    return fin(ok)


# ---------------------------------------------------------------- collections with correlation rules
def check_corr(ka: int, gen: bool, cfail: bool, collect: bool, pos: int) -> bool:
    """[A (kind ka), correlation C over A, plain rule B] (B first if pos == 1): a failing A or C costs exactly its own
    query and gives one record; B's query is what B alone gives; without collection the first error is raised."""
    import yaml

    a = rule_doc(ka, 0)
    a["name"] = "rule_a"
    bdoc = rule_doc(8, 1)
    c = {"title": "corr", "correlation": {"type": "event_count", "rules": ["rule_a"], "group-by": ["u"], "timespan": "5m", "condition": {"gte": 2}, "generate": gen}}
    docs = [bdoc, a, c] if pos == 1 else [a, c, bdoc]
    pd = yaml.safe_load(PIPES[1])
    if cfail:
        pd["transformations"].append({"id": "cf", "type": "rule_failure", "message": "correlation failed by pipeline", "rule_conditions": [{"type": "is_sigma_correlation_rule"}]})

    def backend(coll_errors):
        return TextQueryTestBackend(ProcessingPipeline.from_dict(copy.deepcopy(pd)), collect_errors=coll_errors)

    clear_caches()
    alone_b = backend(True).convert(SigmaCollection.from_dicts([copy.deepcopy(bdoc)]))
    ba = backend(True)
    alone_a = ba.convert(SigmaCollection.from_dicts([copy.deepcopy(a)]))
    a_fails = bool(ba.errors)
    clear_caches()
    b = backend(collect)
    coll = SigmaCollection.from_dicts(copy.deepcopy(docs))
    try:
        out = b.convert(coll)
    except SigmaError:
        return (not collect) and (a_fails or cfail)
    if not collect and (a_fails or cfail):
        return False
    failed = [r.title for r, _ in b.errors]
    want_failed = (["r0"] if a_fails else []) + (["corr"] if (a_fails or cfail) else [])
    if sorted(failed) != sorted(want_failed):
        return False
    # queries: B's as alone; A's own query only with generate; C's query only if nothing failed
    if any(q not in out for q in alone_b):
        return False
    n_expected = len(alone_b) + (len(alone_a) if (gen and not a_fails) else 0) + (0 if (a_fails or cfail) else 1)
    if len(out) != n_expected:
        return False
    if gen and not a_fails and any(q not in out for q in alone_a):
        return False
    return True


def c08_correlation(ka: int, gen: bool, cfail: bool, collect: bool, pos: int) -> bool:
    """
    pre: 0 <= ka < 5
    pre: 0 <= pos < 2
    post: _
    """
    k = [0, 2, 3, 8, 16][sel(ka, 5)]
    g, cf, co, po = selb(gen), selb(cfail), selb(collect), sel(pos, 2)
    with concrete_section():
        ok = check_corr(k, g, cf, co, po)
    return fin(ok)


def c08_correlation_concrete(ka: int, gen: bool, cfail: bool, collect: bool, pos: int) -> bool:
    return check_corr(ka, gen, cfail, collect, pos)


def c08_concrete(k0: int, k1: int, k2: int, collect: bool, bk: int, pipe: int) -> bool:
    return check([k0, k1, k2], collect, bk, pipe)


SETUPS = [(0, 1), (1, 1), (0, 2), (0, 0), (0, 3), (0, 4)]  # (backend, pipeline)
OBLIGATIONS = (
    [Ob("c08_correlation", {}, 600)]
    + [Ob("c08_isolation", {"BK": bk, "PIPE": pp, "K0LO": lo, "K0HI": lo + (4 if lo == 6 else 5)}, 600) for bk, pp in SETUPS for lo in (0, 6, 11)]
    + [Ob("c08_isolation", {"BK": bk, "PIPE": pp, "K0LO": k, "K0HI": k, "FULL": 1}, 1800, tier="thorough") for bk, pp in SETUPS[:3] for k in range(NK)]
)

SELFCHECKS = [
    ("c08_concrete", {}, (0, 2, 0, True, 0, 1), True),
    ("c08_concrete", {}, (0, 3, 1, False, 0, 1), True),
    ("c08_concrete", {}, (12, 0, 0, True, 0, 1), True),
    ("c08_concrete", {}, (0, 14, 0, True, 0, 2), True),
    ("c08_concrete", {}, (7, 9, 8, True, 1, 1), True),
]
