"""C20 - output is byte-identical across processes, hash seeds and random draws (partial, modelled).

What a solver-driven check can reach is the SOURCES of nondeterminism as inputs:
a. random draws: random.choices (used for '_cond_<10 letters>' / '_filt_<10 letters>' names) is
   stubbed to return a harness-chosen string;
b. set iteration order (stands for hash randomisation): the sigma modules are loaded from their real
   source through an import hook (stubs/permset.py) that binds the names set/frozenset to
   order-permuting subclasses before the module body runs and rewrites set displays / comprehensions
   into set([...]) calls (purely syntactic, meaning-preserving), so EVERY set the library source
   creates iterates in an order chosen by the harness; the regex flag sets of loaded rules (created
   by enum flag code) are replaced by such sets.
Symbolic selectors: iteration-order mode (4), draw (4), corpus item (12).  Each path runs one corpus
item (rules + pipelines + filters + correlations + validators + error cases) with the real code and
compares queries AND error texts with the baseline (mode 0, draw 0); internal identifiers must not
appear in any output.  The evidence lists how many set displays / comprehensions were rewritten.
Real interpreter hash randomisation and separate process starts are OUTSIDE the solver's reach; a
plain subprocess cross-check with three PYTHONHASHSEED values is run as a self-check of the model.
"""
import ast
import copy
import os
import subprocess
import sys

from vlib.obl import Ob
from vlib.params import P, concrete_section, fin, sel

HOOKED = os.environ.get("VERIF_C20_REALSETS") != "1"
if HOOKED:
    # before any sigma module is imported in this process: load them through the set-rewriting import hook
    from stubs import permset as _permset

    _permset.install_import_hook()

PROPERTY = "C20"
TARGETS = [
    "sigma.processing.tracking:FieldMappingTracking.add_mapping",
    "sigma.processing.tracking:FieldMappingTracking.merge",
    "sigma.processing.pipeline:ProcessingItemBase._generate_identifier",
    "sigma.processing.pipeline:ProcessingItemBase._resolve_condition_expression",
    "sigma.processing.transformations.condition:AddConditionTransformation",
    "sigma.filters:SigmaFilter.apply_on_rule",
    "sigma.types:SigmaRegularExpression.escape",
    "sigma.conversion.base:TextQueryBackend.get_flag_template",
    "sigma.conversion.base:TextQueryBackend.convert_correlation_aggregation_fields_from_template",
    "sigma.correlations:SigmaCorrelationCondition.from_dict",
    "sigma.validation:SigmaValidator.validate_rules",
]
BOUNDS = {
    "modelled sources": "8 (quick) / 12 (thorough) iteration orders of every set created by the source of sigma.* (set()/frozenset() calls, default_factory=set, set displays and comprehensions via the import hook) and of regex flag sets; 4 draws of random.choices",
    "corpus": "14 items: several deferred query parts, hash field splitting incl. its error text, one-to-many field mappings (incl. repeated targets and nested pipelines), add_condition, filters, regex flags with supported/unsupported flags, correlation rule fields with and without group-by, error texts (unknown correlation condition keys, unreferenced pipeline conditions, strict field mapping failure, collection errors), validator issue texts",
    "outside": "actual PYTHONHASHSEED randomisation / process starts (only the 3-seed subprocess self-check, run with ordinary sets); sets created inside C code or third-party libraries (dict views, pyparsing, yaml); other orders than the 8 / 12 modelled ones",
}
ASSUMPTIONS = [
    "the draws of one run are pairwise distinct (a collision of two 10-letter draws has probability 26^-10 and is outside the model)",
    "stub: names set/frozenset in every sigma.* module namespace -> order-permuting subclasses (bound before the module body runs); set displays/comprehensions rewritten to set([...]) at import; random.choices -> fixed strings",
    "a real set may iterate in any order, so every permuted order is a legitimate execution",
]

DRAWS = ["abcdefghij", "zyxwvutsrq", "qwertzuiop", "mnbvcxylkj"]


def _rule(i, det=None, cond="sel", **kw):
    d = {"title": f"r{i}", "id": "00000000-0000-0000-0000-00000000001%d" % i, "name": f"rule{i}", "logsource": {"category": "c", "product": "p"}, "fields": ["fA", "fB", "fC"], "detection": dict(det or {"sel": {"fA": "v", "fB": "w"}}, condition=cond)}
    d.update(kw)
    return d


def _conv(docs, pipeline=None, backend=None, collect=True):
    from sigma.backends.test import TextQueryTestBackend
    from sigma.collection import SigmaCollection
    from sigma.exceptions import SigmaError
    from sigma.processing.pipeline import ProcessingPipeline

    out = []
    try:
        coll = SigmaCollection.from_dicts(copy.deepcopy(docs), collect_errors=True)
        out += ["collection-error: " + str(e) for e in coll.errors]
        pl = ProcessingPipeline.from_dict(copy.deepcopy(pipeline)) if pipeline else None
        b = backend(pl) if backend else TextQueryTestBackend(pl, collect_errors=collect)
        _permute_flag_sets(coll)
        res = b.convert(coll)
        out += [str(q) for q in res]
        out += ["backend-error: " + str(e) for _, e in b.errors]
    except (SigmaError, NotImplementedError) as e:
        out.append("raised: " + type(e).__name__ + ": " + str(e))
    return out


def _permute_flag_sets(coll):
    from stubs.permset import PermSet
    from sigma.rule import SigmaRule
    from sigma.types import SigmaRegularExpression

    def walk(d):
        for it in d.detection_items:
            if hasattr(it, "detection_items"):
                walk(it)
            else:
                for v in it.value:
                    if isinstance(v, SigmaRegularExpression):
                        v.flags = PermSet(v.flags)

    for r in coll.rules:
        if isinstance(r, SigmaRule):
            for d in r.detection.detections.values():
                walk(d)


def corpus(item: int):
    from sigma.exceptions import SigmaError

    P1N = {"name": "p", "priority": 1, "transformations": [{"id": "m", "type": "field_name_mapping", "mapping": {"fA": ["x1", "x3", "x2", "x1"], "fB": ["yb", "ya"]}}]}
    if item == 0:  # one-to-many mapping (with a repeated target) in detection items and the fields list
        return _conv([_rule(0), _rule(1, {"sel": {"fA|contains": ["a", "b"]}, "flt": {"fB": None}}, "sel and not flt")], P1N)
    if item == 1:  # nested pipelines merging their field mapping tracking + a later mapping of the targets
        pl = {"name": "p", "priority": 1, "transformations": [
            {"type": "nest", "items": [{"type": "field_name_mapping", "mapping": {"fA": ["n2", "n1"]}}, {"type": "field_name_mapping", "mapping": {"n1": ["k2", "k1"], "fB": ["n1", "n3"]}}]},
            {"type": "field_name_suffix", "suffix": "_s", "field_name_conditions": [{"type": "include_fields", "fields": ["k1", "n2"]}]}]}
        return _conv([_rule(0)], pl)
    if item == 2:  # add_condition: random identifier must not surface
        pl = {"name": "p", "priority": 1, "transformations": [{"type": "add_condition", "conditions": {"idx": ["b", "a"], "src": "x"}}, {"type": "add_condition", "conditions": {"z": 1}, "negated": True}]}
        return _conv([_rule(0), _rule(1, cond=["sel", "not sel"])], pl)
    if item == 3:  # filters: random prefix must not surface; two filters, several rules
        f1 = {"title": "f1", "logsource": {"category": "c"}, "filter": {"rules": ["rule0", "rule1"], "sel": {"u|startswith": "adm"}, "ex2": {"h": ["b", "a"]}, "condition": "not 1 of them"}}
        f2 = {"title": "f2", "logsource": {"product": "p"}, "filter": {"rules": "any", "x": {"q": 1}, "condition": "not x"}}
        return _conv([_rule(0), _rule(1, cond="1 of sel*"), f1, f2])
    if item == 4:  # regex flags, all supported
        return _conv([_rule(0, {"sel": {"fA|re|i|m|s": "a.*b", "fB|re|s|i": "c"}})])
    if item == 5:  # regex flags on a backend that supports only one flag (error names a flag)
        from sigma.backends.test import TextQueryTestBackend
        from sigma.types import SigmaRegularExpressionFlag

        cls = type("FlagBackend", (TextQueryTestBackend,), {"re_flag_prefix": False, "re_flags": {SigmaRegularExpressionFlag.IGNORECASE: "i"}, "re_expression": "{field}=/{regex}/{flag_i}"})
        return _conv([_rule(0, {"sel": {"fA|re|i|m|s": "a.*b"}}), _rule(1, {"sel": {"fA|re|i": "x"}})], backend=lambda pl: cls(pl, collect_errors=True))
    if item == 6:  # correlation with fields, with and without group-by
        from backends.vbackend import T
        from harness.c10 import corr_backend_class

        cls = corr_backend_class(False, False, 0)
        cls = type("FB", (cls,), {"correlation_fields_expression": {"default": "FIELDS<{fields}>"}, "correlation_fields_field_expression": {"default": "{field}"}, "correlation_fields_field_expression_joiner": {"default": ","}})
        for t in ("event_count", "temporal"):
            setattr(cls, f"{t}_aggregation_expression", {"default": t + ":{fields}:{groupby}"})
        c1 = {"title": "c1", "name": "c1", "fields": ["fZ", "fA", "fY"], "correlation": {"type": "event_count", "rules": ["rule0", "rule1"], "timespan": "5m", "condition": {"gte": 2}}}
        c2 = {"title": "c2", "name": "c2", "fields": ["fZ", "fB"], "correlation": {"type": "temporal", "rules": ["rule0", "rule1"], "group-by": ["fB", "fC"], "timespan": "5m"}}
        return _conv([_rule(0), _rule(1, fields=["fC", "fQ", "fA"]), c1, c2], backend=lambda pl: cls(pl))
    if item == 7:  # error text: unknown keys in a correlation condition
        bad = {"title": "c", "correlation": {"type": "event_count", "rules": ["rule0"], "timespan": "5m", "condition": {"gte": 1, "zeta": 1, "alpha": 2, "mid": 3}}}
        return _conv([_rule(0), bad])
    if item == 8:  # error text: unreferenced conditions of a pipeline item
        from sigma.processing.pipeline import ProcessingPipeline

        pl = {"name": "p", "priority": 1, "transformations": [{"type": "field_name_suffix", "suffix": "_s", "rule_conditions": {"c1": {"type": "logsource", "category": "c"}, "zz": {"type": "logsource", "category": "d"}, "aa": {"type": "logsource", "category": "e"}, "mm": {"type": "logsource", "category": "f"}}, "rule_cond_expr": "c1"}]}
        try:
            ProcessingPipeline.from_dict(pl)
            return ["loaded"]
        except SigmaError as e:
            return ["raised: " + str(e)]
    if item == 9:  # strict field mapping failure lists the unmapped fields
        pl = {"name": "p", "priority": 1, "transformations": [{"type": "field_name_mapping", "mapping": {"fA": "mA"}}, {"type": "strict_field_mapping_failure"}]}
        return _conv([_rule(0, {"sel": {"fA": 1, "zeta": 2, "alpha": 3, "mid": 4}})], pl)
    if item == 10:  # validator issues as text
        from sigma.collection import SigmaCollection
        from sigma.validation import SigmaValidator
        from harness.c19 import DOCS, all_validator_classes

        coll = SigmaCollection.from_dicts(copy.deepcopy(DOCS))
        v = SigmaValidator(set(all_validator_classes()))
        return sorted(str(i) for i in v.validate_rules(iter(coll.rules)))
    if item == 12:  # several deferred query parts in one query
        from sigma.backends.test import TextQueryTestBackend
        from sigma.conversion.deferred import DeferredTextQueryExpression

        class Deferred(DeferredTextQueryExpression):
            template = '{field}{op}"{value}"'
            operators = {True: "!=", False: "="}
            default_field = "_"

        def conv_re(self, cond, state):
            return Deferred(state, cond.field, TextQueryTestBackend.convert_condition_field_eq_val_re(self, cond, state))

        cls = type("DeferredBackend", (TextQueryTestBackend,), {"re_expression": "{regex}", "re_escape": tuple(), "convert_condition_field_eq_val_re": conv_re})
        return _conv([_rule(0, {"sel": {"fA|re": "z.*a", "fB|re": "m.*b", "fC|re": "a.*c", "fD": "x"}, "flt": {"fE|re": "q.*"}}, "sel and not flt")], backend=lambda pl: cls(pl, collect_errors=True))
    if item == 13:  # hash field splitting: queries and the error text listing the valid algorithms
        pl = {"name": "p", "priority": 1, "transformations": [{"type": "hashes_fields", "valid_hash_algos": ["SHA256", "MD5", "SHA1", "IMPHASH", "SHA512"], "field_prefix": "File", "drop_algo_prefix": False}]}
        return _conv([_rule(0, {"sel": {"Hashes": ["MD5=4fae81eb7018069e75a087c38af783df", "SHA1=6a4b7de61d9c29d5b2e0ca8a4a2e5a4f8a9b0c1d"]}}), _rule(1, {"sel": {"Hashes": "WHIRLPOOL=00112233"}})], pl)
    # 11: identifiers generated for processing items without id (content hash) and unknown top-level keys
    from sigma.processing.pipeline import ProcessingPipeline

    pl = {"name": "p", "priority": 1, "transformations": [{"type": "field_name_mapping", "mapping": {"b": "y", "a": "x"}, "rule_conditions": [{"type": "logsource", "category": "c"}]}, {"type": "add_condition", "conditions": {"k": "v"}}]}
    p = ProcessingPipeline.from_dict(pl)
    out = [i.identifier for i in p.items[:1]]
    try:
        ProcessingPipeline.from_dict({"name": "p", "zeta": 1, "alpha": 2, "transformations": []})
    except SigmaError as e:
        out.append("raised: " + str(e))
    return out


NITEMS = 14


def run(item: int, mode: int, draw: int):
    import random

    from stubs import permset

    saved = random.choices
    calls = []

    def fake(population, k=1, **kw):
        calls.append(1)
        base = DRAWS[draw]
        # distinct identifiers per call (the library draws one per added condition / filter application);
        # two EQUAL draws (probability 26^-10) are outside the model
        n = len(calls) - 1
        text = base[n % 10 :] + base[: n % 10]
        if n >= 10:
            text = text[:8] + "%02d" % (n % 100)
        return list((text * 3)[:k])

    random.choices = fake
    if HOOKED:
        permset.MODE[0] = mode  # every set of the library is an order-permuting set already (import hook)
    else:
        permset.install(mode)
    try:
        return corpus(item)
    finally:
        if not HOOKED:
            permset.uninstall()
        permset.MODE[0] = 0
        random.choices = saved


def check(item: int, mode: int, draw: int) -> bool:
    base = run(item, 0, 0)
    got = run(item, mode, draw)
    if got != base:
        return False
    for line in got:
        if "_cond_" in line or "_filt_" in line:
            return False
        for d in DRAWS:
            if d in line:
                return False
    return True


def c20_modes(item: int, mode: int, draw: int) -> bool:
    """
    pre: 0 <= item < NITEMS
    pre: 0 <= mode < P("MODES", 8)
    pre: 0 <= draw < 4
    post: _
    """
    i, m, d = sel(item, NITEMS), sel(mode, 12), sel(draw, 4)
    with concrete_section():
        ok = check(i, m, d)
    return fin(ok)


# ---------------------------------------------------------------- AST scan (reported in the evidence, not a verdict)
def scan_unmodelled_sets():
    found = []
    for root, _, files in os.walk("/repo/sigma"):
        if "/validators" in root or "/data" in root:
            continue
        for fn in files:
            if not fn.endswith(".py"):
                continue
            path = os.path.join(root, fn)
            try:
                tree = ast.parse(open(path).read())
            except SyntaxError:
                continue
            for node in ast.walk(tree):
                if isinstance(node, (ast.Set, ast.SetComp)):
                    found.append(f"{path[6:]}:{node.lineno}")
    return found


def c20_hook_active() -> bool:
    """Vacuity guard: the library's sets really are order-permuting sets in this process."""
    from stubs import permset
    from sigma.processing.pipeline import ProcessingPipeline
    import sigma.conversion.base as B

    rewritten = sum(n for _, n in permset.REWRITTEN)
    return HOOKED and rewritten >= 20 and isinstance(ProcessingPipeline().applied_ids, permset.PermSet) and B.__dict__.get("set") is permset.PermSet


# ---------------------------------------------------------------- real processes (self-check of the model)
def c20_subprocess_seeds() -> bool:
    code = "import sys; sys.path.insert(0, '/verif'); from harness.c20 import corpus, NITEMS; import hashlib; print(hashlib.sha256(repr([corpus(i) for i in range(NITEMS) if i not in (2, 3)]).encode()).hexdigest())"
    outs = set()
    for seed in ("0", "1", "4242"):
        env = dict(os.environ, PYTHONHASHSEED=seed, PYTHONPATH="/verif", PYTHONDONTWRITEBYTECODE="1", VERIF_C20_REALSETS="1")
        p = subprocess.run([sys.executable, "-c", code], env=env, capture_output=True, text=True, timeout=300)
        if p.returncode != 0:
            return False
        outs.add(p.stdout.strip())
    return len(outs) == 1


OBLIGATIONS = [Ob("c20_modes", {}, 900), Ob("c20_modes", {"MODES": 12}, 1800, tier="thorough")]

SELFCHECKS = [
    ("c20_modes", {}, (0, 1, 1), True),
    ("c20_modes", {}, (3, 2, 2), True),
    ("c20_subprocess_seeds", {}, (), True),
    ("c20_hook_active", {}, (), True),
]
