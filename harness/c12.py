"""C12 - each pipeline transformation equals its documented source-level rewrite.

Engine E1 (+ z3-decided equivalence).  Symbolic selectors choose the rule (two detections from a
pool of shapes - maps, lists of maps, value lists, |all, keywords, field references, numbers, null,
regular expressions - and a condition form); instantiation: the transformation (one pipeline per
built-in transformation / parameter variation incl. "matches nothing" instances).  Each path converts
the rule through the real pipeline with the verification backend, parses the query back and lets z3
decide its equivalence (all truth assignments) with the reference: the source document rewritten by
hand as the transformation is documented (/verif/ref/spec_eval.py semantics + the per-transformation
rewrite below).  Identity instances must leave the queries byte-identical.
"""
import copy
import re

from backends.vbackend import make_backend
from ref import querylang as Q
from ref import spec_eval as S
from ref.sigmastr import M, ref_parse
from sigma.exceptions import SigmaError
from sigma.processing.pipeline import ProcessingPipeline
from sigma.rule import SigmaRule
from vlib.known import is_open
from vlib.obl import Ob
from vlib.params import P, concrete_section, fin, sel
from vlib.z3util import equivalent

PROPERTY = "C12"
TARGETS = [
    "sigma.processing.transformations.base:DetectionItemTransformation.apply_detection",
    "sigma.processing.transformations.base:FieldMappingTransformationBase.apply_detection_item",
    "sigma.processing.transformations.base:FieldMappingTransformationBase._apply_field_name",
    "sigma.processing.transformations.base:ValueTransformation.apply_detection_item",
    "sigma.processing.transformations.base:ConditionTransformation.apply",
    "sigma.processing.transformations.fields:FieldMappingTransformation.apply_field_name",
    "sigma.processing.transformations.fields:FieldPrefixMappingTransformation.apply_field_name",
    "sigma.processing.transformations.fields:AddFieldnameSuffixTransformation.apply_field_name",
    "sigma.processing.transformations.fields:AddFieldnamePrefixTransformation.apply_field_name",
    "sigma.processing.transformations.detection_item:DropDetectionItemTransformation.apply_detection_item",
    "sigma.processing.transformations.condition:AddConditionTransformation.apply",
    "sigma.processing.transformations.values:ReplaceStringTransformation.apply_string_value",
    "sigma.processing.transformations.values:MapStringTransformation.apply_string_value",
    "sigma.processing.transformations.values:CaseTransformation.apply_string_value",
    "sigma.processing.transformations.values:SetValueTransformation.apply_value",
    "sigma.processing.transformations.values:ConvertTypeTransformation.apply_value",
    "sigma.processing.transformations.values:RegexTransformation.apply_string_value",
    "sigma.processing.transformations.meta:NestedProcessingTransformation.apply",
]
BOUNDS = {
    "rules": "two detections d0, d1 from a pool of 14 shapes x 6 condition forms",
    "transformations": "39 instances (incl. hashes_fields, regex ignore-case flag / brackets, change_logsource followed by log source dependent items) (field mapping 1:1 / 1:n / keyword->field / prefix mapping / prefix / suffix / scoped, drop item, add_condition plain / negated / template, replace_string (incl. identity), map_string 1:1 / 1:n, case, set_value, convert_type, regex plain, nest, chains, 'matches nothing' instances)",
    "thorough": "pool of 28 shapes (adds Hashes single / under all / by length / repeated algorithm, endswith, contains with wildcard, lt, exists, cased, re|i, list of maps with two fields, mixed number/string list, bool, contains|all next to a second field) x 12 condition forms (adds all of, 1 of them, negated quantifier, nested)",
    "placeholders": "4 placeholder pipelines (value list, include/exclude splits in both orders, wildcard then value list) x two detections from an 11-shape pool with `expand` (plain, contains, startswith, cased, regular expressions with flags, lists, two placeholders in one value) x 6 conditions, compared with the conversion of the hand-expanded document",
    "outside": "external-source and Jinja-template transformations (C16 covers their gating); values with backslashes before wildcards (open known finding of C05); extract_fields",
}
ASSUMPTIONS = ["dropping the ONLY value of an item (the library then renders the item as a null check) is left unspecified: the drop instance only removes one of several values", "reference rewrites are written from the transformation documentation; the C01 reference semantics evaluates the rewritten source"]

H32A, H32B, H40, H64 = "4fae81eb7018069e75a087c38af783df", "0123456789abcdef0123456789abcdef", "6a4b7de61d9c29d5b2e0ca8a4a2e5a4f8a9b0c1d", "aa" * 32
HASH_ALGOS = ["MD5", "SHA1", "SHA256", "IMPHASH"]

POOL = [
    {"fA": "v0"},
    {"fA": "v1", "fB": "v2"},
    [{"fA": "v3"}, {"fB": "v4"}],
    {"fA": ["v5", "v6"]},
    {"fB|contains|all": ["v7", "v8"]},
    ["k0", "k1"],
    {"fA|fieldref": "fB"},
    {"fB": 5},
    {"fA|startswith": "v0"},
    {"fA": None},
    {"fA|re": "v.*"},
    {"fB": "V9x", "win.nix": "v0"},
    {"win.darwin.y": "", "f.f": ["", "v0"]},
    ["100%\\*", "\\*x\\?", "*k*"],
    {"Hashes|contains": ["MD5=" + H32A, "SHA1=" + H40], "fB": "v2"},
]
CONDS = ["d0", "not d0", "d0 and d1", "d0 or not d1", "not (d0 or d1)", "1 of d*"]


# thorough tier (VERIF_X=1): further detection shapes and condition forms
POOLX = [
    {"fA|endswith": "v0"},
    {"fA|contains": ["v5", "v*6"]},
    {"fB|lt": 5},
    {"fA|exists": True},
    {"fA|cased": "v0"},
    {"fA|re|i": "v0"},
    [{"fA": "v0", "fB": "v2"}, {"fA": "v1"}],
    {"fB": [5, "v5"]},
    {"fA": True},
    {"fA|contains|all": ["v0", "V9"], "fB": "v0"},
    {"Hashes": "MD5=" + H32A},
    {"Hashes|contains|all": ["MD5=" + H32A, "SHA256=" + H64]},
    {"Hash": H64},
    {"Hashes": ["MD5=" + H32A, "MD5=" + H32B, "IMPHASH=" + H32B]},
]
CONDSX = ["all of d*", "d0 and not d1", "1 of them", "not 1 of d*", "(d0 and d1) or not d0", "all of them"]


def pool():
    return POOL + POOLX if P("X", 0) else POOL


def conds():
    return CONDS + CONDSX if P("X", 0) else CONDS


def build_doc(k0, k1, c):
    return {"title": "t", "logsource": {"category": "cat", "product": "prod"}, "fields": ["fA", "fB"], "detection": {"d0": pool()[k0], "d1": pool()[k1], "condition": conds()[c]}}


# ---------------------------------------------------------------- reference rewrites (item level)
def map_atoms(f, fn):
    k = f[0]
    if k == "atom":
        return fn(f[1])
    if k == "not":
        return ("not", map_atoms(f[1], fn))
    if k in ("and", "or"):
        return (k, [map_atoms(a, fn) for a in f[1]])
    return f


def split(key):
    if key is None:
        return None, []
    field, *mods = key.split("|")
    return (field or None), mods


def join(field, mods):
    return (field or "") + "".join("|" + m for m in mods)


def ref(doc, item_fn):
    return [S.simplify_none(f) for f in S.formula_of_rule(doc, item_fn=item_fn)]


def in_scope(key, value, fields, exclude=False):
    """Field name conditions select an item by its field or by a field reference in its values."""
    if fields is None:
        return True
    field, mods = split(key)
    hit = field in fields
    if "fieldref" in mods:
        vals = value if isinstance(value, list) else [value]
        hit = hit or any(v in fields for v in vals)
    return (not hit) if exclude else hit


def rename(fmap):
    """fmap(field) -> list of new names or None; the item becomes the OR of the renamed items;
    field references in values are renamed too."""

    def item_fn(key, value, nc):
        field, mods = split(key)
        if field is None:
            return S.item_formula(key, value, nc)
        new_fields = fmap(field) or [field]
        if "fieldref" in mods:
            vals = value if isinstance(value, list) else [value]
            newvals = []
            for v in vals:
                newvals.extend(fmap(v) or [v])
            value = newvals if (isinstance(value, list) or len(newvals) != 1) else newvals[0]
        subs = [S.item_formula(join(nf, mods), value, nc) for nf in new_fields]
        return subs[0] if len(subs) == 1 else ("or", subs)

    return item_fn


def kw_to_field(key, value, nc):
    f = S.item_formula(key, value, nc)
    if split(key)[0] is not None:
        return f

    def fn(k):
        if k[0] == "glob":
            t = list(k[3])
            if not (t and t[0] == M):
                t = [M] + t
            if not (t and t[-1] == M):
                t = t + [M]
            return ("atom", ("glob", k[1], "msg", S._norm(t)))
        return ("atom", (k[0], "msg") + tuple(k[2:]))

    return map_atoms(f, fn)


def drop(fields):
    def item_fn(key, value, nc):
        if in_scope(key, value, fields):
            return ("none",)
        return S.item_formula(key, value, nc)

    return item_fn


def plain_of(tokens):
    return "".join("*" if t == M else "?" if t[0] == "S" else (("\\" + t[1]) if t[1] in "*?" else t[1]) for t in tokens)


def values(atom_fn, fields=None, exclude=False):
    """Value transformation: rewrites the atoms of the items in scope."""

    def item_fn(key, value, nc):
        f = S.item_formula(key, value, nc)
        if not in_scope(key, value, fields, exclude):
            return f
        return map_atoms(f, atom_fn)

    return item_fn


def on_strings(fn, numbers=False):
    """fn(plain text) -> text | list of texts | None (unchanged); applies to string atoms (and numbers if requested)."""

    def atom_fn(k):
        if k[0] == "glob":
            r = fn(plain_of(k[3]))
            if r is None:
                return ("atom", k)
            rs = r if isinstance(r, list) else [r]
            if not rs:
                return ("none",)  # value dropped
            alts = [("atom", ("glob", k[1], k[2], S._norm(ref_parse(x)))) for x in rs]
            return alts[0] if len(alts) == 1 else ("or", alts)
        if numbers and k[0] == "num" and k[2] not in ("true", "false"):
            r = fn(k[2])
            if r is None or r == k[2]:
                if is_open("c12-replace-string-number-to-string"):
                    r = k[2]  # known finding: a number in scope becomes a string even if nothing is replaced
                else:
                    return ("atom", k)
            return ("atom", ("glob", False, k[1], S._norm(ref_parse(r))))
        return ("atom", k)

    return atom_fn


def set_to(text):
    def atom_fn(k):
        field = k[2] if k[0] in ("glob", "fieldref") else k[1]
        return ("atom", ("glob", False, field, tuple(ref_parse(text))))

    return atom_fn


def to_regex_atom(k):
    if k[0] == "glob" and len(k[3]) > 0:  # the empty string stays a plain (empty) string
        text = "".join(".*" if t == M else "." if t[0] == "S" else (("\\" + t[1]) if t[1] in ".*+?^$[](){}\\|" else t[1]) for t in k[3])
        return ("atom", ("re", k[2], text))
    return ("atom", k)


def _rx_escape(ch):
    return ("\\" + ch) if ch in ".*+?^$[](){}\\|" else ch


def to_regex_atom_flag(k):
    if k[0] == "glob" and len(k[3]) > 0:
        text = "".join(".*" if t == M else "." if t[0] == "S" else _rx_escape(t[1]) for t in k[3])
        return ("atom", ("re", k[2], "(?i)" + text))
    return ("atom", k)


def to_regex_atom_brackets(k):
    if k[0] == "glob" and len(k[3]) > 0:
        text = "".join(".*" if t == M else "." if t[0] == "S" else (f"[{t[1].lower()}{t[1].upper()}]" if t[1].isalpha() else _rx_escape(t[1])) for t in k[3])
        return ("atom", ("re", k[2], text))
    return ("atom", k)


def num_to_str(k):
    if k[0] == "num" and k[2] not in ("true", "false"):
        return ("atom", ("glob", False, k[1], tuple(ref_parse(k[2]))))
    return ("atom", k)


def add_cond(doc, field, value, negated=False):
    a = ("atom", ("glob", False, field, tuple(ref_parse(value))))
    if negated:
        a = ("not", a)
    return [("and", [a, f]) for f in ref(doc, None)]




def hashes_fn(key, value, nc):
    """hashes_fields as documented: every 'ALGO=hash' (or bare hash, algorithm by length) value of a Hashes/Hash item
    becomes '<prefix><ALGO>: hash'; the values stay alternatives - or all required under `all`."""
    field, mods = split(key)
    vals = value if isinstance(value, list) else [value]
    if field not in ("Hashes", "Hash") or not all(isinstance(v, str) for v in vals):
        return S.item_formula(key, value, nc)
    atoms = []
    for v in vals:
        parts = v.split("|") if "|" in v else v.split("=")
        if len(parts) == 2:
            algo, h = parts[0].lstrip("*").upper(), parts[1].strip("*?")
        else:
            h = parts[0].strip("*?")
            algo = {32: "MD5", 40: "SHA1", 64: "SHA256", 128: "SHA512"}.get(len(h), "")
        if algo not in HASH_ALGOS:
            raise Skip()  # values without a recognised algorithm: left unspecified here
        atoms.append(("atom", ("glob", False, "File" + algo, tuple(ref_parse(h)))))
    if len(atoms) == 1:
        return atoms[0]
    return ("and" if "all" in mods else "or", atoms)


FA = lambda m: (lambda f: m if f == "fA" else None)
SUB = lambda pat, rep: (lambda t: (re.sub(pat, rep, t) if re.search(pat, t) else None))
TRANS = [
    ("mapping-1to1", [{"type": "field_name_mapping", "mapping": {"fA": "mA"}}], lambda d: ref(d, rename(FA(["mA"])))),
    ("mapping-1toN", [{"type": "field_name_mapping", "mapping": {"fA": ["m1", "m2"]}}], lambda d: ref(d, rename(FA(["m1", "m2"])))),
    ("mapping-keyword", [{"type": "field_name_mapping", "mapping": {None: "msg"}}], lambda d: ref(d, kw_to_field)),
    ("prefix-mapping", [{"type": "field_name_prefix_mapping", "mapping": {"win.": "winlog."}}], lambda d: ref(d, rename(lambda x: ["winlog." + x[4:]] if x.startswith("win.") else None))),
    ("prefix-mapping-1toN", [{"type": "field_name_prefix_mapping", "mapping": {"f": ["g", "h"]}}], lambda d: ref(d, rename(lambda x: ["g" + x[1:], "h" + x[1:]] if x.startswith("f") else None))),
    ("suffix", [{"type": "field_name_suffix", "suffix": "_s"}], lambda d: ref(d, rename(lambda x: [x + "_s"]))),
    ("prefix", [{"type": "field_name_prefix", "prefix": "p_"}], lambda d: ref(d, rename(lambda x: ["p_" + x]))),
    ("suffix-scoped", [{"type": "field_name_suffix", "suffix": "_s", "field_name_conditions": [{"type": "include_fields", "fields": ["fA"]}]}], lambda d: ref(d, rename(FA(["fA_s"])))),
    ("suffix-excluded", [{"type": "field_name_suffix", "suffix": "_s", "field_name_conditions": [{"type": "exclude_fields", "fields": ["fA"]}]}], lambda d: ref(d, rename(lambda x: [x + "_s"] if x != "fA" else None))),
    ("mapping-nothing", [{"type": "field_name_mapping", "mapping": {"zz": "yy"}}], None),
    ("drop-item", [{"type": "drop_detection_item", "field_name_conditions": [{"type": "include_fields", "fields": ["fB"]}]}], lambda d: ref(d, drop(["fB"]))),
    ("drop-nothing", [{"type": "drop_detection_item", "field_name_conditions": [{"type": "include_fields", "fields": ["zz"]}]}], None),
    ("add-condition", [{"type": "add_condition", "conditions": {"fC": "c1"}}], lambda d: add_cond(d, "fC", "c1")),
    ("add-condition-negated", [{"type": "add_condition", "conditions": {"fC": "c1"}, "negated": True}], lambda d: add_cond(d, "fC", "c1", True)),
    ("add-condition-template", [{"type": "add_condition", "conditions": {"fC": "$category-$product"}, "template": True}], lambda d: add_cond(d, "fC", "cat-prod")),
    ("add-condition-scoped-out", [{"type": "add_condition", "conditions": {"fC": "c1"}, "rule_conditions": [{"type": "logsource", "category": "other"}]}], None),
    ("replace-string", [{"type": "replace_string", "regex": "^v", "replacement": "w"}], lambda d: ref(d, values(on_strings(SUB("^v", "w"), numbers=True)))),
    ("replace-string-nothing", [{"type": "replace_string", "regex": "zz", "replacement": "y"}], None),
    ("replace-string-scoped", [{"type": "replace_string", "regex": "v", "replacement": "w", "field_name_conditions": [{"type": "include_fields", "fields": ["fA"]}]}], lambda d: ref(d, values(on_strings(SUB("v", "w"), numbers=True), ["fA"]))),
    ("replace-string-digit", [{"type": "replace_string", "regex": "5", "replacement": "6"}], lambda d: ref(d, values(on_strings(SUB("5", "6"), numbers=True)))),
    ("map-string", [{"type": "map_string", "mapping": {"v0": "w0", "v5": "w5"}}], lambda d: ref(d, values(on_strings(lambda t: {"v0": "w0", "v5": "w5"}.get(t))))),
    ("map-string-1toN", [{"type": "map_string", "mapping": {"v0": ["w0", "w1"], "*v7*": ["w7", "w8*"]}}], lambda d: ref(d, values(on_strings(lambda t: {"v0": ["w0", "w1"], "*v7*": ["w7", "w8*"]}.get(t))))),
    ("case-upper", [{"type": "case", "method": "upper"}], lambda d: ref(d, values(on_strings(lambda t: t.upper())))),
    ("case-lower", [{"type": "case", "method": "lower"}], lambda d: ref(d, values(on_strings(lambda t: t.lower())))),
    ("set-value-scoped", [{"type": "set_value", "value": "x", "field_name_conditions": [{"type": "include_fields", "fields": ["fB"]}]}], lambda d: ref(d, values(set_to("x"), ["fB"]))),
    ("convert-type-str", [{"type": "convert_type", "target_type": "str"}], lambda d: ref(d, values(num_to_str))),
    ("regex-plain", [{"type": "regex", "method": "plain"}], lambda d: ref(d, values(to_regex_atom))),
    ("nest", [{"type": "nest", "items": [{"type": "field_name_suffix", "suffix": "_a"}, {"type": "field_name_suffix", "suffix": "_b"}]}], lambda d: ref(d, rename(lambda x: [x + "_a_b"]))),
    ("chain-mapping-suffix", [{"type": "field_name_mapping", "mapping": {"fA": "mA"}}, {"type": "field_name_suffix", "suffix": "_s"}], lambda d: ref(d, rename(lambda x: [("mA" if x == "fA" else x) + "_s"]))),
    ("chain-scoped-by-applied", [{"id": "m", "type": "field_name_mapping", "mapping": {"fA": "mA"}}, {"type": "field_name_suffix", "suffix": "_s", "field_name_conditions": [{"type": "processing_item_applied", "processing_item_id": "m"}]}], lambda d: ref(d, rename(FA(["mA_s"])))),
    ("set-state-only", [{"type": "set_state", "key": "k", "val": "v"}], None),
    ("map-string-drop", [{"type": "map_string", "mapping": {"v5": []}}], lambda d: ref(d, values(on_strings(lambda t: [] if t == "v5" else None)))),
    ("replace-string-empty", [{"type": "replace_string", "regex": "^v0$", "replacement": ""}], lambda d: ref(d, values(on_strings(lambda t: "" if t == "v0" else None, numbers=True)))),
    ("hashes-fields", [{"type": "hashes_fields", "valid_hash_algos": list(HASH_ALGOS), "field_prefix": "File"}], lambda d: ref(d, hashes_fn)),
    ("regex-ignore-case-flag", [{"type": "regex", "method": "ignore_case_flag"}], lambda d: ref(d, values(to_regex_atom_flag))),
    ("regex-ignore-case-brackets", [{"type": "regex", "method": "ignore_case_brackets"}], lambda d: ref(d, values(to_regex_atom_brackets))),
    ("change-logsource-then-template", [{"type": "change_logsource", "category": "newcat", "product": "np"}, {"type": "add_condition", "conditions": {"fC": "$category-$product"}, "template": True}], lambda d: add_cond(d, "fC", "newcat-np")),
    ("change-logsource-then-scoped", [{"type": "change_logsource", "category": "newcat", "product": "np"}, {"type": "field_name_suffix", "suffix": "_s", "rule_conditions": [{"type": "logsource", "category": "cat"}]}, {"type": "field_name_suffix", "suffix": "_n", "rule_conditions": [{"type": "logsource", "category": "newcat", "product": "np"}]}], lambda d: ref(d, rename(lambda x: [x + "_n"]))),
    ("set-value-false", [{"type": "set_value", "value": False, "field_name_conditions": [{"type": "include_fields", "fields": ["fB"]}]}], lambda d: ref(d, values(lambda k: ("atom", ("num", k[2] if k[0] in ("glob", "fieldref") else k[1], "false")), ["fB"]))),
]


class Skip(Exception):
    pass


PRIMER = {"title": "primer", "logsource": {"category": "primercat", "product": "primerprod", "service": "primersvc"}, "fields": ["fB"], "detection": {"d0": {"fA": ["v0", "V9x"], "fB": 5, "win.x": "v5"}, "d1": ["k0"], "condition": "d0 or d1"}}


def convert(doc, trans):
    b = make_backend(0)
    if trans is not None:
        b.processing_pipeline = ProcessingPipeline.from_dict({"name": "p", "priority": 10, "transformations": copy.deepcopy(trans)})
        # the pipeline object has already been applied to another rule (other log source, other values):
        # a transformation is a function of the rule it is applied to, not of earlier ones
        try:
            b.convert_rule(SigmaRule.from_dict(copy.deepcopy(PRIMER)))
        except SigmaError:
            pass
    return b.convert_rule(SigmaRule.from_dict(copy.deepcopy(doc)))


def has_number(k):
    d = pool()[k]
    vals = []
    for m in d if isinstance(d, list) else [d]:
        if isinstance(m, dict):
            for v in m.values():
                vals.extend(v if isinstance(v, list) else [v])
    return any(isinstance(v, int) and not isinstance(v, bool) for v in vals)


def check(ti: int, k0: int, k1: int, c: int) -> bool:
    name, trans, reffn = TRANS[ti]
    doc = build_doc(k0, k1, c)
    if name == "chain-scoped-by-applied" and is_open("c12-field-tracking-shared-with-fields-list"):
        doc.pop("fields")  # known finding: per-field tracking is shared (and moved) with the rule's 'fields' list
        if repr(doc["detection"]).count("'fA") > 1:
            return True  # ... and between several detection items with the same field name
    plain = convert(doc, None)
    try:
        out = convert(doc, trans)
    except SigmaError as e:
        # documented failures: converting a non-numeric... none of the instances may fail on these rules
        return False
    if reffn is None:
        if name == "replace-string-nothing" and is_open("c12-replace-string-number-to-string") and (has_number(k0) or (has_number(k1) and c not in (0, 1))):
            return True  # known finding: trigger region (rule with a numeric value) skipped
        return out == plain  # identity instance: byte-identical queries
    try:
        want = reffn(doc)
    except Skip:
        return True
    want = [w for w in want if w != ("none",)]  # a condition of which nothing is left emits no query
    if len(out) != len(want):
        return False
    for q, w in zip(out, want):
        try:
            f = Q.parse(q)
        except Q.QuerySyntaxError:
            return False
        if not equivalent(f, w)[0]:
            return False
    return True


def c12_transform(k0: int, k1: int, c: int) -> bool:
    """
    pre: 0 <= k0 < len(pool()) and 0 <= k1 < len(pool())
    pre: 0 <= c < len(conds())
    post: _
    """
    a, b, cc = sel(k0, len(pool())), sel(k1, len(pool())), sel(c, len(conds()))
    with concrete_section():
        ok = check(P("T", 0), a, b, cc)
    return fin(ok)


def c12_concrete(ti: int, k0: int, k1: int, c: int) -> bool:
    return check(ti, k0, k1, c)


# ---------------------------------------------------------------- placeholder expansion
# "converting the rule through the pipeline == converting, without a pipeline, the document rewritten by hand":
# the hand rewrite removes the `expand` modifier and substitutes the configured values textually.
PVARS = {"u": ["p1", "p2"], "s": ["solo"]}
PPOOL = [
    {"fA|expand": "%u%"},
    {"fA|expand": "x%s%y"},
    {"fA|contains|expand": "%u%"},
    {"fA|re|expand": "a%u%b"},
    {"fA|re|i|expand": "^q=%s%$"},
    {"fA|re|i|m|expand": "%u%"},
    {"fB|cased|expand": "%u%"},
    {"fA|expand": ["%u%", "lit"]},
    {"fA": "plain", "fB|startswith|expand": "%s%"},
    {"fA|expand": "%s%-%u%"},
    {"fB": "v0"},
]
PTRANS = [
    ("value-placeholders", [{"type": "value_placeholders"}], {}),
    ("value-placeholders-split", [{"type": "value_placeholders", "include": ["u"]}, {"type": "value_placeholders", "include": ["s"]}], {}),
    ("value-placeholders-split-reversed", [{"type": "value_placeholders", "include": ["s"]}, {"type": "value_placeholders", "exclude": ["s"]}], {}),
    ("wildcard-then-values", [{"type": "wildcard_placeholders", "include": ["s"]}, {"type": "value_placeholders"}], {"s": ["*"]}),
]


def hand_expand(det, table):
    """Rewrite one detection definition by hand: drop `expand`, substitute every placeholder combination."""
    if isinstance(det, list):
        return [hand_expand(d, table) for d in det]
    if not isinstance(det, dict):
        return det
    out = {}
    for key, value in det.items():
        field, mods = split(key)
        if "expand" not in mods:
            out[key] = value
            continue
        vals = value if isinstance(value, list) else [value]
        new = []
        for v in vals:
            texts = [v]
            for name, repl in table.items():
                texts = [t.replace("%" + name + "%", r, 1) if ("%" + name + "%") in t else t for t in texts for r in (repl if ("%" + name + "%") in t else [None])]
            new.extend(texts)
        out[join(field, [m for m in mods if m != "expand"])] = new if len(new) > 1 else new[0]
    return out


def check_placeholders(ti: int, k0: int, k1: int, c: int) -> bool:
    name, trans, override = PTRANS[ti]
    table = dict(PVARS, **override)
    doc = {"title": "t", "logsource": {"category": "cat"}, "detection": {"d0": copy.deepcopy(PPOOL[k0]), "d1": copy.deepcopy(PPOOL[k1]), "condition": CONDS[c]}}
    if override and is_open("c17-wildcard-placeholder-in-regex"):
        for d in (PPOOL[k0], PPOOL[k1]):
            if any("|re" in k and "%s%" in str(v) for k, v in d.items()):
                return True  # known finding of C17: wildcard placeholder inside a regular expression
    hand = copy.deepcopy(doc)
    hand["detection"]["d0"] = hand_expand(hand["detection"]["d0"], table)
    hand["detection"]["d1"] = hand_expand(hand["detection"]["d1"], table)
    b = make_backend(0)
    b.processing_pipeline = ProcessingPipeline.from_dict({"name": "p", "priority": 10, "vars": copy.deepcopy(PVARS), "transformations": copy.deepcopy(trans)})
    try:
        out = b.convert_rule(SigmaRule.from_dict(copy.deepcopy(doc)))
        want = make_backend(0).convert_rule(SigmaRule.from_dict(hand))
    except SigmaError:
        return False
    if len(out) != len(want):
        return False
    for q, w in zip(out, want):
        try:
            if not equivalent(Q.parse(q), Q.parse(w))[0]:
                return False
        except Q.QuerySyntaxError:
            return False
    return True


def c12_placeholders(ti: int, k0: int, k1: int, c: int) -> bool:
    """
    pre: 0 <= ti < len(PTRANS)
    pre: 0 <= k0 < len(PPOOL) and 0 <= k1 < len(PPOOL)
    pre: 0 <= c < len(CONDS)
    post: _
    """
    t, a, b, cc = sel(ti, len(PTRANS)), sel(k0, len(PPOOL)), sel(k1, len(PPOOL)), sel(c, len(CONDS))
    with concrete_section():
        ok = check_placeholders(t, a, b, cc)
    return fin(ok)


def c12_placeholders_concrete(ti: int, k0: int, k1: int, c: int) -> bool:
    return check_placeholders(ti, k0, k1, c)


def c12_strict_values_inside_expansion() -> bool:
    """Witness form for known finding c12-value-transformations-skip-expansions: a string transformation also
    reaches the values that an earlier expansion (windash) produced."""
    doc = {"title": "t", "logsource": {"category": "cat"}, "detection": {"d0": {"fA|windash|contains": "-Enc", "fB|contains": "-Enc"}, "condition": "d0"}}
    b = make_backend(0)
    b.processing_pipeline = ProcessingPipeline.from_dict({"name": "p", "priority": 10, "transformations": [{"type": "case", "method": "lower"}]})
    q = b.convert_rule(SigmaRule.from_dict(doc))[0]
    return "Enc" not in q


def c12_strict_identity_number() -> bool:
    """Witness of known finding c12-replace-string-number-to-string (strict identity oracle)."""
    doc = build_doc(7, 0, 0)
    ti = [t[0] for t in TRANS].index("replace-string-nothing")
    return convert(doc, TRANS[ti][1]) == convert(doc, None)


def c12_strict_applied_with_fields() -> bool:
    """Witness of known finding c12-field-tracking-shared-with-fields-list (rule WITH a fields list)."""
    doc = build_doc(0, 0, 0)
    ti = [t[0] for t in TRANS].index("chain-scoped-by-applied")
    out = convert(doc, TRANS[ti][1])
    return "mA_s" in out[0]


OBLIGATIONS = [Ob("c12_placeholders", {}, 900)] + [Ob("c12_transform", {"T": t}, 600, note=TRANS[t][0]) for t in range(len(TRANS))] + [Ob("c12_transform", {"T": t, "X": 1}, 1800, tier="thorough", note=TRANS[t][0] + " (extended pool)") for t in range(len(TRANS))]

SELFCHECKS = [
    ("c12_concrete", {}, (0, 1, 6, 2), True),
    ("c12_concrete", {}, (1, 0, 0, 1), True),
    ("c12_concrete", {}, (12, 3, 4, 0), True),
]
