"""C17 - placeholders expand completely or conversion fails; never emitted as text.

Engine E1.  Symbolic: the value text (selectors over the alphabet % a b \\ * , len <= 4) and the
modifier (plain / contains); instantiations: position (string value, keyword, regular expression)
x pipeline (none, value list, wildcard, include/exclude splits in both orders, query expression).
The real chain from_dict -> pipeline -> Backend.convert_rule runs per path; the oracle is a
reference expansion of the source text (/verif/harness reference below, written from the
specification): cross product in configuration order, OR-linked - or a SigmaError naming the
unresolved placeholder; never a query that still contains %name%.
"""
from backends.vbackend import make_backend
from ref import querylang as Q
from ref.sigmastr import M, S, ref_parse
from sigma.exceptions import SigmaError
from sigma.processing.pipeline import ProcessingPipeline
from sigma.rule import SigmaRule
from vlib.known import excluded, is_open
from vlib.obl import Ob
from vlib.params import P, concrete_section, fin, sel, selb

PROPERTY = "C17"
TARGETS = [
    "sigma.types:SigmaString.insert_placeholders",
    "sigma.types:SigmaString.replace_placeholders",
    "sigma.types:SigmaString.contains_placeholder",
    "sigma.types:SigmaString.convert",
    "sigma.types:SigmaRegularExpression.replace_placeholders",
    "sigma.types:SigmaRegularExpression.insert_placeholders",
    "sigma.types:SigmaRegularExpression.escape",
    "sigma.modifiers:SigmaExpandModifier.modify",
    "sigma.processing.transformations.placeholder:BasePlaceholderTransformation.apply_value",
    "sigma.processing.transformations.placeholder:ValueListPlaceholderTransformation.placeholder_replacements",
    "sigma.processing.transformations.placeholder:WildcardPlaceholderTransformation.placeholder_replacements",
    "sigma.processing.transformations.placeholder:QueryExpressionPlaceholderTransformation.apply_string_value",
]
BOUNDS = {
    "values": "every string of length <= 4 (quick) / <= 5 (thorough) over {%, a, b, \\, *}; and every concatenation of 1..3 segments out of 11 (placeholders with list / scalar / numeric / mixed-type / undefined variables, literals, wildcard, escaped percent, backslash) i.e. 0..3 placeholders per value; plain or with |contains",
    "positions": "string value of a field, keyword value, regular expression",
    "pipelines": "none; value list (variables: list with a wildcard value, scalar, numbers, missing, wrong type); wildcard; value list include [a] then wildcard; wildcard exclude [a] then value list; query expression",
    "outside": "longer values; more than 2 placeholders per value; other placeholder names than those expressible over {a, b, \\, *}",
}
ASSUMPTIONS = ["placeholder syntax: unescaped %name% with a non-empty name without '%', found inside the literal runs of the parsed value; '\\%' is a literal percent sign"]

ALPH = ["%", "a", "b", "\\", "*"]
VARS = {"a": ["x1", "x*2"], "b": "y", "ab": [1, 2], "aa": [{"k": "v"}], "ba": [], "bb": ["ok", None], "c": ["p", "q"]}

PIPES = [
    None,
    {"transformations": [{"type": "value_placeholders"}]},
    {"transformations": [{"type": "wildcard_placeholders"}]},
    {"transformations": [{"type": "value_placeholders", "include": ["a"]}, {"type": "wildcard_placeholders"}]},
    {"transformations": [{"type": "wildcard_placeholders", "exclude": ["a"]}, {"type": "value_placeholders"}]},
    {"transformations": [{"type": "query_expression_placeholders", "expression": "\x05QE\x1f{field}\x1f{id}\x06", "include": ["a", "b"]}]},
]


def make_pipeline(i):
    if PIPES[i] is None:
        return None
    d = dict(PIPES[i], name="p", priority=10, vars=VARS)
    return ProcessingPipeline.from_dict(d)


# ---------------------------------------------------------------- reference expansion
def ref_placeholders(text: str, regex: bool = False):
    """Source text -> list of parts: ("c", ch) | M | S | ("P", name).
    In a regular expression the backslash is no Sigma escape character: '*' and '?' always split the
    literal runs (they are written back unchanged), everything else is literal."""
    toks = [M if c == "*" else S if c == "?" else ("c", c) for c in text] if regex else ref_parse(text)
    out = []
    run = []

    def flush():
        s = "".join(run)
        i = 0
        n = len(s)
        lit = []
        while i < n:
            if s[i] == "%" and (i == 0 or s[i - 1] != "\\"):
                j = s.find("%", i + 1)
                if j > i + 1:
                    for ch in "".join(lit).replace("\\%", "%"):
                        out.append(("c", ch))
                    lit.clear()
                    out.append(("P", s[i + 1 : j]))
                    i = j + 1
                    continue
            lit.append(s[i])
            i += 1
        for ch in "".join(lit).replace("\\%", "%"):
            out.append(("c", ch))
        run.clear()

    for t in toks:
        if t[0] == "c":
            run.append(t[1])
        else:
            flush()
            out.append(t)
    flush()
    return out


class Unresolved(Exception):
    def __init__(self, name):
        self.name = name


def replacements(name, handler):
    """handler: 'value' | 'wild' | None  ->  list of token lists"""
    if handler == "wild":
        return [[M]]
    if handler == "value":
        if name not in VARS:
            raise Unresolved(name)
        v = VARS[name]
        v = v if isinstance(v, list) else [v]
        if {isinstance(x, (str, int, float)) for x in v} != {True}:
            raise Unresolved(name)
        return [ref_parse(str(x)) for x in v]
    raise Unresolved(name)


def handler_for(name, pipe):
    if pipe == 1:
        return "value"
    if pipe == 2:
        return "wild"
    if pipe == 3:
        return "value" if name == "a" else "wild"
    if pipe == 4:
        return "value" if name == "a" else "wild"
    return None


def expand(parts, pipe):
    """Cross product in order of appearance, replacement order as configured."""
    res = [[]]
    for p in parts:
        if p[0] == "P":
            reps = replacements(p[1], handler_for(p[1], pipe))
            res = [r + rep for r in res for rep in reps]
        else:
            res = [r + [p] for r in res]
    return res


def norm(toks):
    out = []
    for t in toks:
        if t == M and out and out[-1] == M:
            continue
        out.append(t)
    return tuple(out)


def plain_regex_text(toks):
    return "".join("*" if t == M else "?" if t == S else t[1] for t in toks)


def check(text: str, contains: bool, pos: int, pipe: int) -> bool:
    parts = ref_placeholders(text, pos == 2)
    names = [p[1] for p in parts if p[0] == "P"]
    if pos == 2 and is_open("c17-wildcard-placeholder-in-regex") and any(handler_for(n, pipe) == "wild" for n in names):
        return True  # known finding: trigger region skipped
    key = ("f" if pos != 1 else "") + ("|re" if pos == 2 else "") + "|expand" + ("|contains" if contains else "")
    det = {"sel": {key: text}} if pos != 1 else {"sel": {key: [text]}}
    det["condition"] = "sel"
    doc = {"title": "t", "logsource": {"category": "c"}, "detection": det}
    b = make_backend(0)
    b.query_expression_placeholder = None
    pl = make_pipeline(pipe)
    if pl is not None:
        b.processing_pipeline = pl
    if pos == 2:
        import re

        try:
            re.compile(text)
        except re.error:
            return True  # not a valid regular expression: outside this property
    try:
        rule = SigmaRule.from_dict(doc)
    except SigmaError:
        return pos == 2  # regex position may reject invalid expressions at load; strings never
    try:
        out = b.convert_rule(rule)
    except SigmaError as e:
        # legitimate iff something is unresolved / not supported; the message must name a placeholder
        if pipe == 5:
            return True  # query expression transformation rejects mixed strings by design
        try:
            expand(parts, pipe)
        except Unresolved as u:
            return u.name in str(e) or any(n in str(e) for n in names)
        return False
    if len(out) != 1:
        return False
    q = out[0]
    # never the raw text of an unresolved placeholder
    try:
        exps = expand(parts, pipe)
    except Unresolved as u:
        if pipe == 5:
            exps = None
        else:
            return False  # a query was produced although a placeholder is unresolved
    if pipe == 5:
        # only placeholder-only values are rewritten into the configured expression
        if len(parts) == 1 and parts[0][0] == "P" and parts[0][1] in ("a", "b") and pos == 0 and not contains:
            return q == "\x05QE\x1f\x02f\x02\x1f" + parts[0][1] + "\x06"
        return not names  # anything else containing a placeholder must have failed
    for n in names:
        if "%" + n + "%" in q and handler_for(n, pipe) is None:
            return False
    try:
        f = Q.parse(q)
    except Q.QuerySyntaxError:
        return False
    if pos == 2:
        # `contains` on a regular expression: '.*' is put around the expression unless it is already anchored /
        # open at that end (decided on the expression as written in the rule)
        pre = ".*" if contains and not (text.startswith(".*") or text.startswith("^")) else ""
        post = ".*" if contains and not (text.endswith(".*") or text.endswith("$")) else ""
        want_atoms = [("atom", ("re", "f", pre + plain_regex_text(e) + post)) for e in exps]
    else:
        field = "f" if pos == 0 else None
        want_atoms = []
        for e in exps:
            t = list(e)
            if contains:
                if not (t and t[0] == M):
                    t = [M] + t
                if not (t and t[-1] == M):
                    t = t + [M]
            want_atoms.append(("atom", ("glob", False, field, norm(t))))
    if len(want_atoms) == 0:
        return False
    # OR of exactly these atoms, in this order (in-list or or-chain)
    got = Q.atoms_of(f)
    flat_ok = _is_or_of_atoms(f)
    return flat_ok and got == _dedup([a[1] for a in want_atoms])


def _dedup(xs):
    out = []
    for x in xs:
        if x not in out:
            out.append(x)
    return out


def _is_or_of_atoms(f):
    if f[0] == "atom":
        return True
    if f[0] == "or":
        return all(_is_or_of_atoms(a) for a in f[1])
    return False


def kf_regex_unresolved(text, pos, pipe) -> bool:
    return False


def c17_expand(n: int, k0: int, k1: int, k2: int, k3: int, k4: int, contains: bool) -> bool:
    """
    pre: 0 <= n <= P("LEN", 4)
    pre: 0 <= k0 < 5 and 0 <= k1 < 5 and 0 <= k2 < 5 and 0 <= k3 < 5 and 0 <= k4 < 5
    post: _
    """
    ks = [k0, k1, k2, k3, k4]
    text = ""
    for i in range(5):
        if i < n:
            for j in range(5):
                if ks[i] == j:
                    text += ALPH[j]
        elif ks[i] != 0:
            return True
    cc = True if contains else False
    pos = P("POS", 0)
    with concrete_section():
        ok = check(text, cc, pos, P("PIPE", 1))
    return fin(ok)


SEGMENTS = ["%a%", "%b%", "%c%", "%ab%", "%bb%", "%zz%", "x", "*", "\\%", "\\", "-"]


def c17_segments(n: int, s0: int, s1: int, s2: int, contains: bool) -> bool:
    """
    pre: 1 <= n <= 3
    pre: 0 <= s0 < len(SEGMENTS) and 0 <= s1 < len(SEGMENTS) and 0 <= s2 < len(SEGMENTS)
    pre: n >= 3 or s2 == 0
    pre: n >= 2 or s1 == 0
    post: _
    """
    nn = sel(n - 1, 3) + 1
    ss = [s0, s1, s2]
    text = ""
    for i in range(nn):
        text += SEGMENTS[sel(ss[i], len(SEGMENTS))]
    cc = selb(contains)
    pos = P("POS", 0)
    with concrete_section():
        ok = check(text, cc, pos, P("PIPE", 1))
    return fin(ok)


def c17_text(text: str, contains: bool, pos: int, pipe: int) -> bool:
    return check(text, contains, pos, pipe)


def c17_wildcard_in_regex_strict(text: str) -> bool:
    """Witness form for known finding c17-wildcard-placeholder-in-regex: a wildcard placeholder inside a
    regular expression must be rendered with regular expression syntax ('.*')."""
    doc = {"title": "t", "logsource": {"category": "c"}, "detection": {"sel": {"f|re|expand": text}, "condition": "sel"}}
    b = make_backend(0)
    b.processing_pipeline = make_pipeline(2)
    try:
        q = b.convert_rule(SigmaRule.from_dict(doc))[0]
    except SigmaError:
        return False
    return ".*" in q


COMBOS = [(pos, pipe) for pos in range(3) for pipe in range(len(PIPES)) if not (pos != 0 and pipe == 5)]
OBLIGATIONS = (
    [Ob("c17_expand", {"POS": pos, "PIPE": pipe, "LEN": 4}, 600) for pos, pipe in COMBOS]
    + [Ob("c17_segments", {"POS": pos, "PIPE": pipe}, 600) for pos, pipe in COMBOS]
    + [Ob("c17_expand", {"POS": pos, "PIPE": pipe, "LEN": 5}, 3000, tier="thorough") for pos, pipe in COMBOS]
)

SELFCHECKS = [
    ("c17_text", {}, ("%a%", False, 0, 1), True),
    ("c17_text", {}, ("a%b%*", True, 0, 1), True),
    ("c17_text", {}, ("%a%%b%", False, 0, 1), True),
    ("c17_text", {}, ("\\%a%", False, 0, 1), True),
    ("c17_text", {}, ("%ab%", False, 1, 1), True),
    ("c17_text", {}, ("%b%", False, 0, 2), True),
]
