"""C10 - correlation queries carry every element of the correlation rule faithfully.

Engine E1 (+ z3 for extended conditions).  The verification backend gets delimiter-structured
correlation templates, so a generated correlation query parses back into its elements: embedded
sub-queries with their rule tags, normalisations, typing section, timespan, referenced rules,
group-by fields, condition (field, operator, count, percentile) or extended condition.
Symbolic selectors: correlation type, 1..3 referenced rules (single-condition rule, two-condition
rule, nested correlation rule), group-by 0..2 / aliases, generate, field-mapping pipeline on/off,
sub-query finalisation on/off, typing templates on/off; operator x count; timespan unit x count x
rendering mode; extended condition expressions.  Oracle: expected elements computed from the source
documents (referenced rules converted on their own with a fresh backend of the same class).
a2: SigmaCorrelationTimespan on a symbolic specification string.
"""
import copy

from backends.vbackend import VBackend
from ref import condition as RC
from sigma.collection import SigmaCollection
from sigma.correlations import SigmaCorrelationTimespan
from sigma.exceptions import SigmaError, SigmaTimespanError
from sigma.processing.pipeline import ProcessingPipeline
from vlib.known import is_open
from vlib.obl import Ob
from vlib.params import P, concrete_section, fin, sel, selb
from vlib.z3util import equivalent

PROPERTY = "C10"
TARGETS = [
    "sigma.conversion.base:Backend.convert_correlation_rule",
    "sigma.conversion.base:TextQueryBackend.convert_correlation_rule_from_template",
    "sigma.conversion.base:TextQueryBackend.convert_correlation_search",
    "sigma.conversion.base:TextQueryBackend.convert_correlation_search_field_normalization_expression",
    "sigma.conversion.base:TextQueryBackend.convert_correlation_typing",
    "sigma.conversion.base:TextQueryBackend.convert_correlation_aggregation_from_template",
    "sigma.conversion.base:TextQueryBackend.convert_correlation_aggregation_groupby_from_template",
    "sigma.conversion.base:TextQueryBackend.convert_referenced_rules",
    "sigma.conversion.base:TextQueryBackend.convert_correlation_condition_from_template",
    "sigma.conversion.base:TextQueryBackend.convert_extended_correlation_condition",
    "sigma.conversion.base:TextQueryBackend.convert_extended_correlation_condition_and",
    "sigma.conversion.base:TextQueryBackend.convert_extended_correlation_condition_or",
    "sigma.conversion.base:TextQueryBackend.convert_extended_correlation_condition_not",
    "sigma.conversion.base:TextQueryBackend.convert_timespan",
    "sigma.correlations:SigmaCorrelationTimespan.__post_init__",
    "sigma.correlations:SigmaExtendedCorrelationCondition.parse",
    "sigma.correlations:SigmaExtendedCorrelationCondition.get_referenced_rules",
    "sigma.processing.transformations.base:FieldMappingTransformationBase.apply",
]
BOUNDS = {
    "structure": "8 correlation types x 1..3 referenced rules (first: single-condition / two-condition / nested correlation; others: single / two-condition) x group-by (none, [user], [user, ip], alias) x generate x field-mapping pipeline (unconditional; LSC=1: bound to a logsource rule condition; PPALL=1: query post-processing applies to correlation rules too) x sub-query finalisation x typing templates",
    "condition": "8 types x 6 operators x 7 counts (incl. fractions and 0) x percentile (50, 99.9, 0, 0.5, 90)",
    "timespan": "7 units x 4 counts x 3 rendering modes; SigmaCorrelationTimespan on every string of length <= 3 (quick) / 4 (thorough) over a 12-character alphabet (digits incl. a non-ASCII digit, units, sign, space, other letters)",
    "extended conditions": "18 expressions over 3 rule names x temporal / temporal_ordered x with / without explicit rules list",
    "outside": "more than 3 referenced rules; correlation methods other than the default one; backends overriding the phase methods",
}
ASSUMPTIONS = ["unit lengths: s=1, m=60, h=3600, d=86400, w=604800, M=2629746 (mean Gregorian month), y=31556952 (mean Gregorian year)"]

TYPES = ["event_count", "value_count", "temporal", "temporal_ordered", "value_sum", "value_avg", "value_percentile", "value_median"]
OPS = ["lt", "lte", "gt", "gte", "eq", "neq"]
OPMAP = {"lt": "<", "lte": "<=", "gt": ">", "gte": ">=", "eq": "==", "neq": "!="}
UNITS = {"s": 1, "m": 60, "h": 3600, "d": 86400, "w": 604800, "M": 2629746, "y": 31556952}
TSMAP = {"s": "sec", "m": "min", "h": "hr", "d": "day"}


def corr_backend_class(finalize: bool, typing: bool, tsmode: int):
    d = dict(
        correlation_methods={"default": "default method"},
        default_correlation_method="default",
        default_correlation_query={"default": "\x10S{search}\x11T{typing}\x12A{aggregate}\x13C{condition}\x14"},
        correlation_search_single_rule_expression="{query}{normalization}",
        correlation_search_multi_rule_expression="M[{queries}]",
        correlation_search_multi_rule_query_expression="Q<{ruleid}|{query}|{normalization}>",
        correlation_search_multi_rule_query_expression_joiner=";",
        correlation_search_field_normalization_expression="N<{alias}={field}>",
        correlation_search_field_normalization_expression_joiner="",
        referenced_rules_expression={"default": "{ruleid}"},
        referenced_rules_expression_joiner={"default": ","},
        groupby_expression={"default": "GB<{fields}>"},
        groupby_field_expression={"default": "{field}"},
        groupby_field_expression_joiner={"default": ","},
        groupby_expression_nofield={"default": "GB<>"},
        extended_correlation_condition_rule_reference_expression={"default": "R<{ruleid}>"},
        finalize_correlation_subqueries=finalize,
        timespan_seconds=(tsmode == 0),
        timespan_mapping=(TSMAP if tsmode == 1 else None),
        field_quote=None,
        backend_processing_pipeline=ProcessingPipeline(),
        output_format_processing_pipeline={"default": ProcessingPipeline()},
    )
    for t in TYPES + ["temporal_extended", "temporal_ordered_extended"]:
        d[f"{t}_aggregation_expression"] = {"default": t + ":ts={timespan}:refs={referenced_rules}:field={field}:{groupby}:pct={percentile}"}
        if t.endswith("extended"):
            d[f"{t}_condition_expression"] = {"default": "XCOND<{extended_condition}>refs={referenced_rules}"}
        else:
            d[f"{t}_condition_expression"] = {"default": "COND<{field}|{op}|{count}>refs={referenced_rules}"}
    if typing:
        d.update(typing_expression="TY[{queries}]", typing_rule_query_expression="TQ<{ruleid}|{query}>", typing_rule_query_expression_joiner=";")
    return type("CorrBackend", (VBackend,), d)


PIPE = {
    "name": "p",
    "priority": 10,
    "transformations": [{"id": "map", "type": "field_name_mapping", "mapping": {"user": "musr", "ip": "mip", "fA": "mA", "amount": "mamount"}}],
    "postprocessing": [{"type": "embed", "prefix": "F[", "suffix": "]", "rule_conditions": [{"type": "is_sigma_rule"}]}],
}


def pipe_dict():
    d = copy.deepcopy(PIPE)
    if P("LSC", 0):
        # the field mapping is bound to the log source of the rules: a correlation rule matches through the
        # rules it refers to (also through nested correlation rules)
        d["transformations"][0]["rule_conditions"] = [{"type": "logsource", "category": "c"}]
    if P("PPALL", 0):
        # the query post-processing item applies to correlation rules as well
        d["postprocessing"][0].pop("rule_conditions")
    return d


UUIDS = ["00000000-0000-0000-0000-00000000000%d" % i for i in range(8)]


def base_rule(i, kind):
    """kind 0: one condition, 1: two conditions, 2: nested correlation (event_count over rule 'leaf')."""
    name = "r" + "abc"[i]
    if kind == 2:
        return {"title": name, "name": name, "id": UUIDS[i], "correlation": {"type": "event_count", "rules": ["leaf"], "group-by": ["user"], "timespan": "1h", "condition": {"gte": 2}}}
    cond = ["sel", "sel and not flt"] if kind == 1 else "sel"
    # odd rules are referenced by id (no name)
    d = {"title": name, "id": UUIDS[i], "logsource": {"category": "c"}, "detection": {"sel": {"fA": f"v{i}"}, "flt": {"fB": f"w{i}"}, "condition": cond}}
    if i != 1:
        d["name"] = name
    return d


LEAF = {"title": "leaf", "name": "leaf", "id": UUIDS[7], "logsource": {"category": "c"}, "detection": {"sel": {"fA": "leafv"}, "condition": "sel"}}
GROUPBYS = [None, ["user"], ["user", "ip"], ["au"]]


def ruleid(i):
    return UUIDS[i] if i == 1 else "r" + "abc"[i]


def build(ctype, kinds, gb, gen, op="gte", count=2, timespan="5m", pct=None, cond_expr=None, explicit_rules=True):
    n = len(kinds)
    docs = []
    if 2 in kinds:
        docs.append(copy.deepcopy(LEAF))
    for i, k in enumerate(kinds):
        docs.append(base_rule(i, k))
    corr = {"type": ctype, "timespan": timespan, "generate": gen}
    if explicit_rules:
        corr["rules"] = [ruleid(i) for i in range(n)]
    if GROUPBYS[gb] is not None:
        corr["group-by"] = list(GROUPBYS[gb])
    if gb == 3:
        corr["aliases"] = {"au": {ruleid(i): ("user" if i != 1 else "ip") for i in range(n)}}
    if cond_expr is not None:
        corr["condition"] = cond_expr
    elif ctype in ("temporal", "temporal_ordered"):
        corr["condition"] = {op: count}
    else:
        c = {op: count}
        if ctype != "event_count":
            c["field"] = "amount"
        if ctype == "value_percentile":
            c["percentile"] = 90 if pct is None else pct
        corr["condition"] = c
    docs.append({"title": "corr", "name": "corr", "id": UUIDS[6], "correlation": corr})
    return docs


def split_top(text, opener, closer, sep):
    out, depth, cur = [], 0, ""
    for ch in text:
        if ch == opener:
            depth += 1
        elif ch == closer:
            depth -= 1
        if ch == sep and depth == 0:
            out.append(cur)
            cur = ""
        else:
            cur += ch
    if cur or out:
        out.append(cur)
    return out


def expected_elements(docs, kinds, gb, gen, pipe, finalize, typing, tsmode, ctype, op, count, timespan, pct):
    cls = corr_backend_class(finalize, typing, tsmode)
    fm = {"user": "musr", "ip": "mip", "fA": "mA", "amount": "mamount"} if pipe else {}
    mp = lambda f: fm.get(f, f)
    # every referenced rule converted on its own (fresh backend, fresh collection with what it needs)
    own = []
    for i, k in enumerate(kinds):
        b = cls(ProcessingPipeline.from_dict(pipe_dict()) if pipe else None)
        sub = [copy.deepcopy(d) for d in docs if d["title"] in (("leaf", "r" + "abc"[i]) if k == 2 else ("r" + "abc"[i],))]
        coll = SigmaCollection.from_dicts(sub)
        b.convert(coll)
        target = [r for r in coll.rules if r.title == "r" + "abc"[i]][0]
        qs = list(target.get_conversion_result())
        if not finalize and pipe and (k != 2 or P("PPALL", 0)):
            # stand-alone conversion finalises (post-processes) the query; embedded sub-queries are raw unless the backend opts in
            qs = [q[2:-1] if q.startswith("F[") and q.endswith("]") else q for q in qs]
        own.append(qs)
    return own, mp


def check_structure(ti, kinds, gb, gen, pipe, finalize, typing) -> bool:
    ctype = TYPES[ti]
    docs = build(ctype, kinds, gb, gen)
    own, mp = expected_elements(docs, kinds, gb, gen, pipe, finalize, typing, 0, ctype, "gte", 2, "5m", None)
    cls = corr_backend_class(finalize, typing, 0)
    b = cls(ProcessingPipeline.from_dict(pipe_dict()) if pipe else None)
    coll = SigmaCollection.from_dicts(copy.deepcopy(docs))
    out = b.convert(coll)
    corr_rule = [r for r in coll.rules if r.title == "corr"][0]
    cq = corr_rule.get_conversion_result()
    if len(cq) != 1:
        return False
    q = cq[0]
    # output accounting: referenced rules emit their own queries only with generate
    exp_out = []
    if gen:
        if 2 in kinds:
            pass  # leaf is referenced by the nested (non-generating) correlation only
        for i, k in enumerate(kinds):
            # what a rule emits for itself is always finalised (post-processed), whatever is embedded
            full = own[i] if (finalize or not pipe or (k == 2 and not P("PPALL", 0))) else ["F[" + x + "]" for x in own[i]]
            exp_out.extend(full)
    exp_out.append(q)
    if list(out) != exp_out:
        return False
    n = len(kinds)
    ids = [ruleid(i) for i in range(n)]
    norm = lambda i: (f"N<au={mp('user' if i != 1 else 'ip')}>" if gb == 3 else "")
    # search phase
    if n == 1 and len(own[0]) == 1:
        want_s = own[0][0] + norm(0)
    else:
        want_s = "M[" + ";".join(f"Q<{ids[i]}|{qq}|{norm(i)}>" for i in range(n) for qq in own[i]) + "]"
    # typing phase
    want_t = ("TY[" + ";".join(f"TQ<{ids[i]}|{qq}>" for i in range(n) for qq in own[i]) + "]") if typing else ""
    # aggregation phase
    gbl = GROUPBYS[gb]
    gbtxt = "GB<>" if gbl is None else "GB<" + ",".join((g if gb == 3 else mp(g)) for g in gbl) + ">"
    fieldtxt = mp("amount") if ctype not in ("event_count", "temporal", "temporal_ordered") else "None"
    pcttxt = "90" if ctype == "value_percentile" else ""
    want_a = f"{ctype}:ts=300:refs={','.join(ids)}:field={fieldtxt}:{gbtxt}:pct={pcttxt}"
    want_c = f"COND<{fieldtxt}|>=|2>refs={','.join(ids)}"
    want_q = "\x10S" + want_s + "\x11T" + want_t + "\x12A" + want_a + "\x13C" + want_c + "\x14"
    if pipe and P("PPALL", 0):
        want_q = "F[" + want_q + "]"  # what the correlation rule emits for itself is always post-processed
    return q == want_q


def c10b_structure(n: int, k0: int, k1: int, k2: int, gb: int, gen: bool, pipe: bool, finalize: bool, typing: bool) -> bool:
    """
    pre: 1 <= n <= 3
    pre: 0 <= k0 < 3 and 0 <= k1 < 2 and 0 <= k2 < 2
    pre: n >= 3 or k2 == 0
    pre: n >= 2 or k1 == 0
    pre: 0 <= gb < 4
    post: _
    """
    nn = sel(n - 1, 3) + 1
    kinds = [sel(k0, 3), sel(k1, 2), sel(k2, 2)][:nn]
    g = sel(gb, 4)
    ge, pi, fi, ty = selb(gen), selb(pipe), selb(finalize), selb(typing)
    with concrete_section():
        ok = check_structure(P("TYPE", 0), kinds, g, ge, pi, fi, ty)
    return fin(ok)


# ---------------------------------------------------------------- condition operator / count / percentile
COUNTS = [1, 5, 90, 2.5, 0.5, 0, 100]
PCTS = {0: 50, 3: 99.9, 5: 0, 6: 0.5}  # percentile per count index (others: the default 90); 0 is falsy


def check_condition(ti, oi, ci, pipe) -> bool:
    ctype, op, count = TYPES[ti], OPS[oi], COUNTS[ci]
    docs = build(ctype, [0], 0, False, op=op, count=count, pct=PCTS.get(ci))
    cls = corr_backend_class(False, False, 2)
    b = cls(ProcessingPipeline.from_dict(pipe_dict()) if pipe else None)
    coll = SigmaCollection.from_dicts(docs)
    b.convert(coll)
    q = [r for r in coll.rules if r.title == "corr"][0].get_conversion_result()[0]
    c_part = q[:-1].split("\x13C", 1)[1]
    a_part = q.split("\x12A", 1)[1].split("\x13C", 1)[0]
    field = "None" if ctype in ("event_count", "temporal", "temporal_ordered") else ("mamount" if pipe else "amount")
    pct = str(PCTS.get(ci, 90)) if ctype == "value_percentile" else ""
    return c_part == f"COND<{field}|{OPMAP[op]}|{count}>refs=ra" and a_part.endswith(":pct=" + pct) and ":ts=5m:" in a_part


def c10c_concrete(ti: int, oi: int, ci: int, pipe: bool) -> bool:
    return check_condition(ti, oi, ci, pipe)


def c10c_condition(ti: int, oi: int, ci: int, pipe: bool) -> bool:
    """
    pre: 0 <= ti < 8 and 0 <= oi < 6 and 0 <= ci < len(COUNTS)
    post: _
    """
    a, b, c, p = sel(ti, 8), sel(oi, 6), sel(ci, len(COUNTS)), selb(pipe)
    with concrete_section():
        ok = check_condition(a, b, c, p)
    return fin(ok)


# ---------------------------------------------------------------- timespan
TCOUNTS = [1, 7, 30, 365]


def check_timespan(ui, ci, mode) -> bool:
    unit = list(UNITS)[ui]
    count = TCOUNTS[ci]
    spec = f"{count}{unit}"
    ts = SigmaCorrelationTimespan(spec)
    if ts.seconds != count * UNITS[unit] or ts.count != count or ts.unit != unit:
        return False
    docs = build("event_count", [0], 0, False, timespan=spec)
    b = corr_backend_class(False, False, mode)()
    coll = SigmaCollection.from_dicts(docs)
    b.convert(coll)
    q = [r for r in coll.rules if r.title == "corr"][0].get_conversion_result()[0]
    want = str(count * UNITS[unit]) if mode == 0 else (f"{count}{TSMAP[unit]}" if (mode == 1 and unit in TSMAP) else spec)
    return f":ts={want}:" in q


def c10a_timespan(ui: int, ci: int, mode: int) -> bool:
    """
    pre: 0 <= ui < 7 and 0 <= ci < 4 and 0 <= mode < 3
    post: _
    """
    a, b, c = sel(ui, 7), sel(ci, 4), sel(mode, 3)
    with concrete_section():
        ok = check_timespan(a, b, c)
    return fin(ok)


TSALPH = ["0", "1", "9", "s", "m", "M", "y", "d", "x", "-", " ", "٣"]


def _timespan_text_ok(spec: str) -> bool:
    try:
        ts = SigmaCorrelationTimespan(spec)
    except SigmaTimespanError:
        return True
    # accepted: unit is the last character, count the integer before it
    unit = spec[-1]
    if unit not in UNITS:
        return False
    return ts.unit == unit and ts.seconds == ts.count * UNITS[unit] and ts.count == int(spec[:-1])


def c10a_timespan_text(n: int, k0: int, k1: int, k2: int, k3: int) -> bool:
    """
    pre: 0 <= n <= P("LEN", 3)
    pre: 0 <= k0 < 12 and 0 <= k1 < 12 and 0 <= k2 < 12 and 0 <= k3 < 12
    pre: n >= 4 or k3 == 0
    pre: n >= 3 or k2 == 0
    pre: n >= 2 or k1 == 0
    pre: n >= 1 or k0 == 0
    post: _
    """
    nn = sel(n, P("LEN", 3) + 1)
    ks = [k0, k1, k2, k3]
    spec = ""
    for i in range(nn):
        spec += TSALPH[sel(ks[i], 12)]
    with concrete_section():
        ok = _timespan_text_ok(spec)
    return fin(ok)


# ---------------------------------------------------------------- extended conditions
XEXPRS = [
    "ra and rb", "ra or rb", "ra and not rb", "not ra and rb", "ra and rb and rc", "ra or rb or rc", "ra and rb or rc", "ra or rb and rc",
    "(ra or rb) and rc", "ra and (rb or rc)", "not (ra and rb) or rc", "not (ra or rb) and rc", "ra and not (rb or rc)", "not ra or not rb and rc",
    "ra and rb or ra and rc", "(ra and rb) or (not ra and rc)", "not not ra and rb", "ra or not (rb and not rc)",
]


def parse_xcond(text):
    """R<id> atoms, and/or/not words, parentheses -> formula (default precedence of the backend)."""
    from ref import querylang as Q

    toks = []
    i = 0
    while i < len(text):
        c = text[i]
        if c in " ":
            i += 1
        elif c in "()":
            toks.append((c,))
            i += 1
        elif text.startswith("R<", i):
            j = text.index(">", i)
            toks.append(("atom", ("atom", ("rule", text[i + 2 : j]))))
            i = j + 1
        else:
            j = i
            while j < len(text) and text[j].isalpha():
                j += 1
            if j == i or text[i:j] not in ("and", "or", "not"):
                raise ValueError("bad token")
            toks.append((text[i:j],))
            i = j
    bp = {"not": 3, "and": 2, "or": 1}
    pos = [0]

    def expr(min_bp):
        t = toks[pos[0]]
        pos[0] += 1
        if t[0] == "not":
            lhs = ("not", expr(bp["not"]))
        elif t[0] == "(":
            lhs = expr(0)
            assert toks[pos[0]][0] == ")"
            pos[0] += 1
        elif t[0] == "atom":
            lhs = t[1]
        else:
            raise ValueError("unexpected")
        while pos[0] < len(toks) and toks[pos[0]][0] in ("and", "or") and bp[toks[pos[0]][0]] >= min_bp:
            o = toks[pos[0]][0]
            pos[0] += 1
            rhs = expr(bp[o] + 1)
            lhs = (o, [lhs, rhs])
        return lhs

    e = expr(0)
    if pos[0] != len(toks):
        raise ValueError("trailing")
    return e


def check_extended(xi, ordered, explicit) -> bool:
    expr = XEXPRS[xi]
    names = [n for n in ("ra", "rb", "rc") if n in expr]
    ctype = "temporal_ordered" if ordered else "temporal"
    kinds = [0] * 3
    docs = build(ctype, kinds, 1, False, cond_expr=expr, explicit_rules=False)
    # rule names: ra, rb (referenced by name here), rc
    docs[1]["name"] = "rb"
    corr = docs[-1]["correlation"]
    docs = [d for d in docs if d["title"] in names or d["title"] == "corr"]
    if explicit:
        corr["rules"] = list(names)
    b = corr_backend_class(False, False, 0)()
    coll = SigmaCollection.from_dicts(docs)
    b.convert(coll)
    q = [r for r in coll.rules if r.title == "corr"][0].get_conversion_result()[0]
    s_part = q[2:].split("\x11T", 1)[0]
    c_part = q[:-1].split("\x13C", 1)[1]
    a_part = q.split("\x12A", 1)[1].split("\x13C", 1)[0]
    if not (c_part.startswith("XCOND<") and ">refs=" in c_part):
        return False
    xtext, refs = c_part[6:].rsplit(">refs=", 1)
    # every referenced rule exactly once, embedded and listed in order of first appearance
    order = sorted(names, key=lambda n: expr.index(n))
    if refs.split(",") != (names if explicit else order) and sorted(refs.split(",")) != sorted(names):
        return False
    if len(refs.split(",")) != len(names):
        return False
    for n in names:
        if s_part.count(f"Q<{n}|") != 1:
            return False
    if not a_part.startswith(ctype + "_extended:"):
        return False
    try:
        got = parse_xcond(xtext)
    except Exception:
        return False
    want = RC.parse(expr, names)

    def conv(f):
        if f[0] == "v":
            return ("atom", ("rule", f[1]))
        if f[0] == "not":
            return ("not", conv(f[1]))
        return (f[0], [conv(a) for a in f[1]])

    return equivalent(got, conv(want))[0]


def c10d_extended(xi: int, ordered: bool, explicit: bool) -> bool:
    """
    pre: 0 <= xi < len(XEXPRS)
    post: _
    """
    a, o, e = sel(xi, len(XEXPRS)), selb(ordered), selb(explicit)
    with concrete_section():
        ok = check_extended(a, o, e)
    return fin(ok)


def c10_strict_alias_mapping_per_rule() -> bool:
    """Witness form for known finding c10-alias-targets-mapped-for-unmapped-rules: an alias target is renamed only
    for the referenced rules the field mapping item was applied to."""
    from sigma.backends.test import TextQueryTestBackend

    docs = [
        {"title": "w", "name": "win_logon", "logsource": {"product": "windows"}, "detection": {"sel": {"User": "admin"}, "condition": "sel"}},
        {"title": "l", "name": "lin_logon", "logsource": {"product": "linux"}, "detection": {"sel": {"User": "root"}, "condition": "sel"}},
        {"title": "c", "correlation": {"type": "temporal", "rules": ["win_logon", "lin_logon"], "group-by": ["account"], "timespan": "5m", "aliases": {"account": {"win_logon": "User", "lin_logon": "User"}}}},
    ]
    p = ProcessingPipeline.from_dict({"name": "p", "priority": 1, "transformations": [{"type": "field_name_mapping", "mapping": {"User": "winlog.user"}, "rule_conditions": [{"type": "logsource", "product": "windows"}]}]})
    out = TextQueryTestBackend(p).convert(SigmaCollection.from_dicts(docs))
    q = out[-1]
    lin = q[q.index('User="root"'):]
    return "set account=User" in lin.split("}")[0]


def c10b_concrete(ti: int, kinds_csv: str, gb: int, gen: bool, pipe: bool, finalize: bool, typing: bool) -> bool:
    return check_structure(ti, [int(x) for x in kinds_csv.split(",")], gb, gen, pipe, finalize, typing)


OBLIGATIONS = (
    [Ob("c10b_structure", {"TYPE": t}, 900) for t in range(8)]
    + [Ob("c10b_structure", {"TYPE": t, "LSC": 1}, 900) for t in (1, 2)]
    + [Ob("c10b_structure", {"TYPE": t, "PPALL": 1}, 900) for t in (0, 2)]
    + [Ob("c10b_structure", {"TYPE": t, "PPALL": 1}, 1800, tier="thorough") for t in (1, 3, 4, 5, 6, 7)]
    + [Ob("c10b_structure", {"TYPE": t, "LSC": 1}, 1800, tier="thorough") for t in (0, 3, 4, 5, 6, 7)]
    + [Ob("c10c_condition", {}, 600), Ob("c10a_timespan", {}, 300), Ob("c10d_extended", {}, 300)]
    + [Ob("c10a_timespan_text", {"LEN": 3}, 600)]
    + [Ob("c10a_timespan_text", {"LEN": 4}, 3000, tier="thorough")]
)

SELFCHECKS = [
    ("c10b_concrete", {}, (0, "0", 0, False, False, False, False), True),
    ("c10b_concrete", {}, (2, "0,1", 1, True, True, False, True), True),
    ("c10a_timespan", {}, (6, 1, 0), True),
    ("c10d_extended", {}, (6, False, False), True),
]
