"""C15 - converting a rule gives the same result whatever was converted before.

Engine E1.  Symbolic: a history of up to 3 (quick) / 4 (thorough) operations on shared objects
(load a rule, convert a collection, convert a single rule, init the pipeline, create a second
backend of the same class - with its own or with the SAME pipeline object - and use it, conversions
that raise in the pipeline / in conversion / inside negated not-equals rendering), followed by the
conversion of a probe rule that shares condition text, detection names and field names with the
rules of the history.  Oracle: the probe's queries and errors in a fresh set-up (new backend, new
pipeline from the same YAML, condition-parse and modifier type-hint caches cleared); and the backend
class attributes after every history equal their values before it.
"""
import copy

from harness.c08 import PIPES, err_sig, make_rule
from backends.vbackend import make_backend
from sigma.backends.test import TextQueryTestBackend
from sigma.collection import SigmaCollection
from sigma.exceptions import SigmaError
from sigma.processing.pipeline import ProcessingPipeline
from vlib.known import is_open
from vlib.obl import Ob
from vlib.params import P, concrete_section, fin, sel

PROPERTY = "C15"
TARGETS = [
    "sigma.processing.pipeline:ProcessingPipeline.apply",
    "sigma.processing.pipeline:ProcessingPipeline.__add__",
    "sigma.processing.pipeline:ProcessingPipeline.set_pipeline",
    "sigma.conversion.base:Backend.init_processing_pipeline",
    "sigma.conversion.base:Backend.convert_rule",
    "sigma.conversion.base:TextQueryBackend.__new__",
    "sigma.conversion.base:TextQueryBackend.not_equals_context_manager",
    "sigma.conditions:_parse_condition_string",
    "sigma.conditions:SigmaCondition.parse",
    "sigma.modifiers:SigmaModifier._get_modify_type_hint",
]
BOUNDS = {
    "histories": "all sequences of <= 3 (quick) / 4 (thorough) operations out of 10 operation kinds, then one of 6 probe rules",
    "set-ups": "shipped test backend with mapping/state/failure pipeline; verification backend in NOT-as-not-equals mode with the same pipeline; strict field mapping pipeline; external-source placeholder pipeline; verification backend whose query envelope reads the pipeline state with a class-level default; pipeline that sets / extends the rule's field list and renders it",
    "outside": "longer histories; other processes (C20); external-source value caches (C16 covers their gating)",
}
ASSUMPTIONS = ["fresh set-up = new backend instance of the same class, new pipeline from the same YAML, _parse_condition_string.cache_clear(), SigmaModifier._type_hint_cache.clear()"]

NOPS = 10
PROBES = [0, 8, 10, 11, 12, 14, 15]
TEMPLATE_ATTRS = [
    "eq_expression", "re_expression", "cidr_expression", "startswith_expression", "endswith_expression", "contains_expression",
    "case_sensitive_startswith_expression", "case_sensitive_endswith_expression", "case_sensitive_contains_expression",
    "explicit_not_exists_expression", "field_not_exists_expression", "eq_token", "precedence", "state_defaults", "query_expression",
]


def backend_class(bk: int):
    if bk == 0:
        return TextQueryTestBackend
    if bk == 2:  # query envelope that reads the pipeline state, with a class-level default
        return type(make_backend(0, query_expression="Q<{state[seen]}>{query}", state_defaults={"seen": "no"}))
    return type(make_backend(12))


def new_backend(cls, pipe, collect=True, pipeline_obj=None):
    pl = pipeline_obj if pipeline_obj is not None else (ProcessingPipeline.from_yaml(PIPES[pipe], allow_external_sources=(pipe == 3)) if PIPES[pipe] else None)
    b = cls(pl, collect_errors=collect)
    return b


def clear_caches():
    from sigma.conditions import _parse_condition_string
    from sigma.modifiers import SigmaModifier

    _parse_condition_string.cache_clear()
    SigmaModifier._type_hint_cache.clear()


def probe_result(b, kind, idx, mode=0):
    r = make_rule(kind, idx)
    nerr = len(b.errors)
    try:
        if mode == 0:
            out = list(b.convert(SigmaCollection([r])))
        else:  # single-rule entry point on an already initialised backend
            if not hasattr(b, "last_processing_pipeline"):
                b.init_processing_pipeline()
            out = list(b.convert_rule(r))
    except SigmaError as e:
        return ("raised", err_sig(e))
    return ("ok", out, [err_sig(e) for _, e in b.errors[nerr:]])


def run_history(ops, probe_kind, bk, pipe, mode=0) -> bool:
    cls = backend_class(bk)
    clear_caches()
    A = new_backend(cls, pipe)
    snapshot = {a: copy.deepcopy(getattr(cls, a, None)) for a in TEMPLATE_ATTRS}  # after the first instantiation (lazy class set-up in __new__)
    B = None
    for step, op in enumerate(ops):
        i = 10 + step
        try:
            if op == 0:
                pass  # no operation (shorter history)
            elif op == 1:  # load rules sharing condition text / names, no conversion
                make_rule(10, i).detection.parsed_condition[0].parsed
                make_rule(11, i)
            elif op == 2:  # convert a collection (marker rule sets pipeline state; placeholder rule fills value caches)
                A.convert(SigmaCollection([make_rule(12, i), make_rule(10, i + 5), make_rule(15, i + 6)]))
            elif op == 3:  # convert a single rule
                A.convert_rule(make_rule(12, i))
            elif op == 4:
                A.init_processing_pipeline()
            elif op == 5:  # second backend of the same class with its own pipeline
                B = new_backend(cls, pipe)
                B.init_processing_pipeline()
            elif op == 6:  # second backend sharing the SAME pipeline object, used once
                B = new_backend(cls, pipe, pipeline_obj=A.processing_pipeline)
                B.convert(SigmaCollection([make_rule(12, i)]))
            elif op == 7:  # raises in the pipeline (strict mode backend call on A's objects)
                A.collect_errors = False
                try:
                    A.convert(SigmaCollection([make_rule(2, i)]))
                finally:
                    A.collect_errors = True
            elif op == 8:  # raises during conversion
                A.collect_errors = False
                try:
                    A.convert(SigmaCollection([make_rule(3, i)]))
                finally:
                    A.collect_errors = True
            elif op == 9:  # raises inside negated rendering
                A.collect_errors = False
                try:
                    A.convert(SigmaCollection([make_rule(7, i), make_rule(9, i)]))
                finally:
                    A.collect_errors = True
        except SigmaError:
            pass
    got = probe_result(A, probe_kind, 3, mode)
    after = {a: getattr(cls, a, None) for a in TEMPLATE_ATTRS}
    clear_caches()
    F = new_backend(cls, pipe)
    want = probe_result(F, probe_kind, 3, mode)
    return got == want and after == snapshot


def kf_excluded(ops, mode=0) -> bool:
    return False


def c15_history(o0: int, o1: int, o2: int, o3: int, pk: int, single: bool) -> bool:
    """
    pre: P("O0LO", 1) <= o0 <= P("O0HI", NOPS - 1)
    pre: 0 <= o1 < NOPS
    pre: 0 <= o2 < (NOPS if P("LEN", 3) >= 3 else 1)
    pre: 0 <= o3 < (NOPS if P("LEN", 3) >= 4 else 1)
    pre: o1 != 0 or o2 == 0
    pre: o2 != 0 or o3 == 0
    pre: 0 <= pk < len(PROBES)
    post: _
    """
    ops = [sel(o0, NOPS), sel(o1, NOPS), sel(o2, NOPS), sel(o3, NOPS)]
    kind = PROBES[sel(pk, len(PROBES))]
    mode = 1 if single else 0
    if kf_excluded(ops, mode):
        return True
    with concrete_section():
        ok = run_history(ops, kind, P("BK", 0), P("PIPE", 1), mode)
    return fin(ok)


def c15_concrete(o0: int, o1: int, o2: int, o3: int, probe_kind: int, bk: int, pipe: int, mode: int = 0) -> bool:
    return run_history([o0, o1, o2, o3], probe_kind, bk, pipe, mode)


OBLIGATIONS = (
    [Ob("c15_history", {"BK": 0, "PIPE": 1, "O0LO": o, "O0HI": o, "LEN": 3}, 900) for o in range(1, NOPS)]
    + [Ob("c15_history", {"BK": bk, "PIPE": pp, "O0LO": lo, "O0HI": lo + 2, "LEN": 2}, 600) for bk, pp in ((1, 1), (0, 2), (0, 3), (2, 1), (0, 4)) for lo in (1, 4, 7)]
    + [Ob("c15_history", {"BK": bk, "PIPE": pp, "O0LO": o, "O0HI": o, "LEN": 3}, 3000, tier="thorough") for bk, pp in ((1, 1), (0, 2), (2, 1)) for o in range(1, NOPS)]
    + [Ob("c15_history", {"BK": 0, "PIPE": 1, "O0LO": o, "O0HI": o, "LEN": 4}, 6000, tier="thorough") for o in range(1, NOPS)]
)

SELFCHECKS = [
    ("c15_concrete", {}, (0, 0, 0, 0, 0, 0, 1), True),
    ("c15_concrete", {}, (2, 0, 0, 0, 10, 0, 1), True),
    ("c15_concrete", {}, (8, 3, 0, 0, 8, 1, 1), True),
]
