"""C02 - condition text parses to the boolean function it spells.

Engine E1.  The condition string is assembled from symbolic *selectors* (so it is concrete on each
explored path and pyparsing runs as compiled by CPython); the truth assignment of the detections is
symbolic: the parsed condition tree (real code: pyparsing grammar, from_parsed, postprocess,
selector resolution) and the tree of the independent reference parser (/verif/ref/condition.py) are
both evaluated with non-forking boolean operators on CrossHair's symbolic bools and the solver
decides equality for ALL 2^n assignments at once.
b. additionally feeds a symbolic identifier string through the real grammar.
"""
from ref import condition as R
from sigma.conditions import ConditionAND, ConditionFieldEqualsValueExpression, ConditionNOT, ConditionOR, SigmaCondition
from sigma.exceptions import SigmaConditionError
from sigma.rule.detection import SigmaDetections
from vlib.known import excluded
from vlib.obl import Ob
from vlib.params import P, concrete_section, fin

PROPERTY = "C02"
TARGETS = [
    "sigma.conditions:ConditionItem.from_parsed",
    "sigma.conditions:ConditionItem.postprocess",
    "sigma.conditions:ConditionIdentifier.postprocess",
    "sigma.conditions:ConditionSelector.__post_init__",
    "sigma.conditions:ConditionSelector.resolve_referenced_detections",
    "sigma.conditions:ConditionSelector.postprocess",
    "sigma.conditions:SigmaCondition.parse",
    "sigma.conditions:_parse_condition_string",
    "sigma.conditions",  # module level: the pyparsing grammar objects
]
BOUNDS = {
    "structure": "flat expressions of 1..4 operands joined by and/or, 0..2 'not' in front of each operand (quick: 0..1 for 4 operands), one optional parenthesised span (optionally negated); all truth assignments (symbolic)",
    "tokenisation": "27 tricky detection names (keyword prefixes/suffixes, digits, underscores, dashes, case variants) in 8 contexts",
    "selectors": "18 patterns x 3 quantifiers x every subset of 6 candidate detection names",
    "identifier text": "symbolic identifier, len <= 4 over [a-z0-9_-] (search-grade)",
    "outside": "longer expressions, nested parentheses deeper than one level, other names/patterns",
}
ASSUMPTIONS = [
    "a selector that matches no detection is left unspecified (the library drops the term; validators report it) - such instances are skipped",
    "pyparsing runs concretely per path (strings are built from selectors), except in c02b where CrossHair drives it symbolically",
]


def real_formula(cond: str, names):
    """Parse with the real code and turn the postprocessed tree into a formula over detection names."""
    dets = {n: {"f_" + str(i): "v"} for i, n in enumerate(names)}
    field2name = {"f_" + str(i): n for i, n in enumerate(names)}
    # history: the same condition text is first parsed for a rule with the same detection names but
    # different contents (the parse cache is keyed by the text only) - the second rule must get
    # its own detections
    prime = {n: {"g_" + str(i): "w"} for i, n in enumerate(names)}
    try:
        pd = SigmaDetections.from_dict(dict(prime, condition=cond))
        pd.parsed_condition[0].parsed
        # ... and a caller that asks for the unprocessed tree (as the validators do) and resolves it
        # itself owns that tree: working on it must not change what later rules get
        pd.parsed_condition[0].parse(False).postprocess(pd)
    except SigmaConditionError:
        pass
    d = SigmaDetections.from_dict(dict(dets, condition=cond))
    tree = d.parsed_condition[0].parsed

    def conv(t):
        if t is None:
            return ("none",)
        if isinstance(t, ConditionNOT):
            return ("not", conv(t.args[0]))
        if isinstance(t, ConditionAND):
            return ("and", [conv(a) for a in t.args])
        if isinstance(t, ConditionOR):
            return ("or", [conv(a) for a in t.args])
        if isinstance(t, ConditionFieldEqualsValueExpression):
            return ("v", field2name[t.field])
        raise TypeError(type(t))

    return conv(tree)


def _has_none(f):
    if f[0] == "none":
        return True
    if f[0] == "not":
        return _has_none(f[1])
    if f[0] in ("and", "or"):
        return any(_has_none(a) for a in f[1])
    return False


def compare(cond: str, names):
    """-> ("skip"|"bad"|"ok", real_formula, ref_formula); concrete work only."""
    try:
        ref = R.parse(cond, list(names))
        ref_err = None
    except R.RefSyntaxError:
        ref, ref_err = None, "syntax"
    except KeyError:
        ref, ref_err = None, "unknown"
    try:
        real = real_formula(cond, names)
        real_err = None
    except SigmaConditionError:
        real, real_err = None, "error"
    if ref_err is not None:
        # malformed or unknown detection: the only acceptable outcome is a SigmaConditionError
        return ("ok" if real_err else "bad"), None, None
    if R.has_empty_selector(ref):
        return "skip", None, None
    if real_err is not None or _has_none(real):
        return "bad", None, None
    return "cmp", real, ref


def decide(cond: str, names, env) -> bool:
    with concrete_section():
        st, real, ref = compare(cond, names)
    if st == "skip" or st == "ok":
        return True
    if st == "bad":
        return False
    return R.ev(real, env) == R.ev(ref, env)


# ---------------------------------------------------------------- a1. structure / precedence
NAMES4 = ["p", "q", "r", "s"]
SPANS = {1: [None], 2: [None, (0, 1)], 3: [None, (0, 1), (1, 2), (0, 2)], 4: [None, (0, 1), (1, 2), (2, 3), (0, 2), (1, 3), (0, 3)]}


def build_flat(n, negs, ops, span, pneg):
    parts = []
    for i in range(n):
        if span is not None and i == span[0]:
            parts.append(("not " if pneg else "") + "(")
        parts.append("not " * negs[i] + NAMES4[i])
        if span is not None and i == span[1]:
            parts.append(")")
        if i < n - 1:
            parts.append("and" if ops[i] == 0 else "or")
    return " ".join(parts).replace("( ", "(").replace(" )", ")")


def c02a_structure(g0: int, g1: int, g2: int, g3: int, o0: bool, o1: bool, o2: bool, sp: int, pneg: bool, a0: bool, a1: bool, a2: bool, a3: bool) -> bool:
    """
    pre: 0 <= g0 <= P("NEG", 1) and 0 <= g1 <= P("NEG", 1) and 0 <= g2 <= P("NEG", 1) and 0 <= g3 <= P("NEG", 1)
    pre: 0 <= sp < len(SPANS[P("N", 3)])
    post: _
    """
    n = P("N", 3)
    gs = [g0, g1, g2, g3]
    negs = []
    for i in range(4):
        v = 0
        for j in range(3):
            if gs[i] == j:
                v = j
        if i >= n and v != 0:
            return True
        negs.append(v)
    os_ = [o0, o1, o2]
    ops = []
    for i in range(3):
        v = 1 if os_[i] else 0
        if i >= n - 1 and v != 0:
            return True
        ops.append(v)
    span = None
    for j in range(len(SPANS[n])):
        if sp == j:
            span = SPANS[n][j]
    pn = True if pneg else False
    if span is None and pn:
        return True
    cond = build_flat(n, negs, ops, span, pn)
    env = {"p": a0, "q": a1, "r": a2, "s": a3}
    return fin(decide(cond, NAMES4[:n], env))


def c02a_text(cond: str, names_csv: str, bits: int) -> bool:
    """Concrete-instance form: condition text, comma separated detection names, assignment bit mask."""
    names = names_csv.split(",")
    env = {n: bool((bits >> i) & 1) for i, n in enumerate(names)}
    return decide(cond, names, env)


# ---------------------------------------------------------------- a2. tokenisation of names
TRICKY = [
    "nota", "note", "notepad", "not_a", "not-a", "nota-b", "andy", "and_1", "and-x", "or_1", "oracle", "or-x", "ornot",
    "all_x", "allof", "any1", "anyof", "of_x", "ofx", "them1", "them_", "x1", "a-b", "a_not", "x-and-y", "Nota", "knot",
]
CONTEXTS = ["{X}", "not {X}", "{X} and p", "p or {X}", "({X})", "not ({X} or p)", "p and not {X}", "{X} or {X}"]


def c02a_names(k: int, c: int, ax: bool, ap: bool) -> bool:
    """
    pre: 0 <= k < len(TRICKY)
    pre: 0 <= c < len(CONTEXTS)
    post: _
    """
    name = TRICKY[0]
    for j in range(len(TRICKY)):
        if k == j:
            name = TRICKY[j]
    ctx = CONTEXTS[0]
    for j in range(len(CONTEXTS)):
        if c == j:
            ctx = CONTEXTS[j]
    cond = ctx.replace("{X}", name)
    if excluded("condition-keyword-prefix", name.startswith(("not", "and", "or"))):
        return True
    return fin(decide(cond, [name, "p"], {name: ax, "p": ap}))


# ---------------------------------------------------------------- a3. selectors
CAND = ["s1", "sel", "s_1", "_x", "_s1", "x1", "s-1"]
PATTERNS = ["s*", "*1", "s*1", "*", "them", "_*", "_x*", "*x", "s**", "*s*", "s*l", "sel", "s_*", "*_*", "x*", "_s*", "**", "s1"]
QUANT = ["1", "any", "all"]


def c02a_selectors(pt: int, q: int, m0: bool, m1: bool, m2: bool, m3: bool, m4: bool, m5: bool, m6: bool, form: int, a0: bool, a1: bool, a2: bool, a3: bool, a4: bool, a5: bool, a6: bool, az: bool) -> bool:
    """
    pre: P("PT0", 0) <= pt < min(len(PATTERNS), P("PT0", 0) + 3)
    pre: 0 <= q < 3
    pre: 0 <= form < P("FORMS", 2)
    post: _
    """
    pat = PATTERNS[0]
    for j in range(len(PATTERNS)):
        if pt == j:
            pat = PATTERNS[j]
    qu = QUANT[0]
    for j in range(3):
        if q == j:
            qu = QUANT[j]
    ms = [m0, m1, m2, m3, m4, m5, m6]
    names = ["z"]
    for i in range(7):
        if ms[i]:
            names.append(CAND[i])
    ff = 0
    for j in range(3):
        if form == j:
            ff = j
    sel = f"{qu} of {pat}"
    cond = [sel, f"z and not {sel}", f"({sel}) or z"][ff]
    env = {"z": az}
    for i, a in enumerate([a0, a1, a2, a3, a4, a5, a6]):
        env[CAND[i]] = a
    return fin(decide(cond, names, env))


# ---------------------------------------------------------------- b. symbolic identifier text through pyparsing
def c02b_identifier(name: str, ax: bool) -> bool:
    """
    pre: 1 <= len(name) <= P("LEN", 4)
    pre: all(ch in "abdnortx1_-" for ch in name)
    pre: name not in ("not", "and", "or", "1", "of")
    pre: not excluded("condition-keyword-prefix", name.startswith("not") or name.startswith("and") or name.startswith("or"))
    post: _
    """
    d = SigmaDetections.from_dict({name: {"f": "v"}, "condition": name})
    t = d.parsed_condition[0].parsed
    return fin(isinstance(t, ConditionFieldEqualsValueExpression) and t.field == "f")


OBLIGATIONS = [
    Ob("c02a_structure", {"N": 1, "NEG": 2}, 120),
    Ob("c02a_structure", {"N": 2, "NEG": 2}, 180),
    Ob("c02a_structure", {"N": 3, "NEG": 1}, 300),
    Ob("c02a_structure", {"N": 4, "NEG": 1}, 600),
    Ob("c02a_structure", {"N": 3, "NEG": 2}, 1200, tier="thorough"),
    Ob("c02a_structure", {"N": 4, "NEG": 2}, 3000, tier="thorough"),
    Ob("c02a_names", {}, 300),
] + [Ob("c02a_selectors", {"PT0": i, "FORMS": 2}, 600) for i in range(0, 18, 3)] + [Ob("c02a_selectors", {"PT0": i, "FORMS": 3}, 1200, tier="thorough") for i in range(0, 18, 3)] + [
    Ob("c02b_identifier", {"LEN": 3}, 900, tier="thorough", search=True),
]

SELFCHECKS = [
    ("c02a_text", {}, ("p or q and not r", "p,q,r", 0b001), True),
    ("c02a_text", {}, ("p or q and not r", "p,q,r", 0b110), True),
    ("c02a_text", {}, ("not (p or q) and r", "p,q,r", 0b100), True),
    ("c02a_text", {}, ("1 of s* and not all of them", "s1,s2,x", 0b001), True),
    ("c02a_text", {}, ("not not p", "p", 1), True),
    ("c02a_text", {}, ("p and and q", "p,q", 3), True),
]
