"""C16 - a pipeline file cannot grant itself code execution, file or network access.

Engine E1 with environment stubs that RECORD AND REFUSE every dangerous operation the library can
perform: subprocess.run (command sources), open() of a source file, requests.request (HTTP
sources), importlib spec/exec of a Python variables file.  The documented environment variables
are read through a stubbed `os.environ` whose value is a SYMBOLIC string (len <= 4), so the solver
decides the gate for every value.
a. injection: selectors choose the item kind (file / http / command placeholders flat or nested in
   'nest' transformations, template post-processing, template finalizer flat or nested 1..3 levels),
   where the opt-in keys are smuggled into the document (item, nested item, every level) and with
   which truthy value, the caller's opt-in arguments, and the (symbolic) environment value.
   Oracle: a stub is reached only if the caller opted in or the environment value (lower-cased) is
   "1"/"true"; otherwise SigmaSecurityError (or a configuration error for the smuggled key) and no
   event; capability flags of instantiated items never come from the document.
b. allowed-path containment of the variables file (realpath stubbed incl. a symlink escape).
"""
import copy
import io
import os as real_os
import sys
import types

from sigma.collection import SigmaCollection
from sigma.exceptions import SigmaConfigurationError, SigmaError, SigmaSecurityError
from sigma.processing.pipeline import ProcessingPipeline
from vlib.obl import Ob
from vlib.params import P, concrete_section, fin, sel, selb

PROPERTY = "C16"
TARGETS = [
    "sigma.processing.pipeline:ProcessingPipeline.from_dict",
    "sigma.processing.pipeline:ProcessingPipeline.from_yaml",
    "sigma.processing.pipeline:ProcessingItemBase._instantiate_transformation",
    "sigma.processing.transformations.external:ExternalSourceBaseTransformation._external_sources_allowed",
    "sigma.processing.transformations.external:ExternalSourceBaseTransformation._get_values",
    "sigma.processing.templates:TemplateBase.__post_init__",
    "sigma.processing.templates:TemplateBase._vars_execution_allowed",
    "sigma.processing.templates:TemplateBase._load_vars_from_file",
    "sigma.processing.finalization:NestedFinalizer.from_dict",
    "sigma.processing.transformations.meta:NestedProcessingTransformation.__post_init__",
    "sigma.processing.postprocessing:QueryPostprocessingItem.from_dict",
]
BOUNDS = {
    "documents": "12 item kinds (incl. templates whose text calls the pipeline loader with the opt-in set) x 5 injection variants x 4 truthy values x caller opt-in on/off",
    "environment": "gate functions: every ASCII string of length <= 4 (quick) / <= 6 (thorough) as value of PYSIGMA_ALLOW_EXTERNAL_SOURCES / PYSIGMA_ALLOW_VARS_EXECUTION (symbolic) or unset; whole-pipeline runs: 12 representative values incl. unset",
    "paths": "vars file and allowed base built from 1..3 components out of {a, ab, b, ..}; realpath is identity or maps the vars path to an outside target (symlink)",
    "outside": "real file system / sockets / processes (replaced by stubs); pipeline resolver loading from directories",
}
ASSUMPTIONS = [
    "stubs: subprocess (in sigma.processing.transformations.external), open (same module), requests (sys.modules), importlib.util.spec_from_file_location (sigma.processing.templates), os.environ / os.path.realpath (both modules) - each records the access; Python audit events themselves are not observable symbolically",
]

EVENTS = []
ENVVAL = {}


class FakeEnviron(dict):
    def get(self, key, default=None):
        if key in ENVVAL:
            return ENVVAL[key]
        return default


class FakeOS:
    """`os` as seen by the modules under test: environ is the (symbolic) fake, realpath is stubbed."""

    def __init__(self, realpath=None):
        self.environ = FakeEnviron()
        self.sep = "/"
        self.path = types.SimpleNamespace(
            realpath=realpath or (lambda p: p), dirname=real_os.path.dirname, join=real_os.path.join, abspath=lambda p: p, sep="/", isfile=lambda p: True, exists=lambda p: True
        )

    def __getattr__(self, name):
        return getattr(real_os, name)


class FakeCompleted:
    returncode = 0
    stdout = "svc_a\nusr_b\n"
    stderr = ""


class FakeSubprocess:
    TimeoutExpired = __import__("subprocess").TimeoutExpired

    @staticmethod
    def run(*a, **k):
        EVENTS.append(("exec", a[0] if a else k.get("args")))
        return FakeCompleted()

    Popen = run
    check_output = run


def fake_open(path, *a, **k):
    EVENTS.append(("open", path))
    return io.StringIO("svc_a\nusr_b\n")


class FakeResponse:
    encoding = "utf-8"
    apparent_encoding = "utf-8"

    def __enter__(self):
        return self

    def __exit__(self, *a):
        return False

    def raise_for_status(self):
        pass

    def iter_content(self, chunk_size=1):
        yield b"svc_a\nusr_b\n"


def fake_requests():
    m = types.ModuleType("requests")

    class RequestException(Exception):
        pass

    def request(**k):
        EVENTS.append(("net", k.get("url")))
        return FakeResponse()

    m.request = request
    m.RequestException = RequestException
    return m


class FakeSpec:
    loader = None


def fake_spec_from_file_location(name, path, *a, **k):
    EVENTS.append(("pyexec", path))

    class L:
        def exec_module(self, module):
            module.vars = {"f": lambda x: x}

    s = types.SimpleNamespace(loader=L(), name=name, origin=path, submodule_search_locations=None, cached=None, parent="", has_location=False, loader_state=None)
    return s


class Patched:
    def __init__(self, realpath=None):
        self.realpath = realpath

    def __enter__(self):
        import sigma.processing.templates as T
        import sigma.processing.transformations.external as X

        self.saved = (X.subprocess, X.__dict__.get("open"), X.os, T.os, T.importlib, sys.modules.get("requests"))
        fos = FakeOS(self.realpath)
        X.subprocess = FakeSubprocess
        X.open = fake_open
        X.os = fos
        T.os = fos
        fake_importlib = types.SimpleNamespace(util=types.SimpleNamespace(spec_from_file_location=fake_spec_from_file_location, module_from_spec=lambda spec: types.ModuleType("template_vars")))
        T.importlib = fake_importlib
        sys.modules["requests"] = fake_requests()
        EVENTS.clear()
        return self

    def __exit__(self, *a):
        import sigma.processing.templates as T
        import sigma.processing.transformations.external as X

        X.subprocess, op, X.os, T.os, T.importlib, rq = self.saved
        if op is None:
            X.__dict__.pop("open", None)
        else:
            X.open = op
        if rq is None:
            sys.modules.pop("requests", None)
        else:
            sys.modules["requests"] = rq
        return False


TRUTHY = [True, 1, "yes", [1]]
KINDS = ["file", "http", "command", "nest-file", "nest-nest-command", "post-template", "fin-template", "nested-fin-1", "nested-fin-2", "nested-fin-3", "tpl-call-post", "tpl-call-fin"]
# the last two: a template (no vars file) whose TEXT calls the pipeline loader with the opt-in set on its own behalf
TPL_CALL = "{{ pipeline.from_dict({'transformations': [{'type': '%s', %s}]}, allow_external_sources=True).items[0].transformation.placeholder_replacements(none) | join(',') }}"
EXT_ENV = "PYSIGMA_ALLOW_EXTERNAL_SOURCES"
VARS_ENV = "PYSIGMA_ALLOW_VARS_EXECUTION"


def ext_item(kind):
    if kind == "file":
        return {"id": "ext", "type": "file_placeholders", "path": "/etc/passwd"}
    if kind == "http":
        return {"id": "ext", "type": "http_placeholders", "url": "http://attacker.example/x"}
    return {"id": "ext", "type": "command_placeholders", "cmd": "id"}


def build(kind, inject, truthy):
    """-> (pipeline dict, is_template, nesting depth)."""
    tv = TRUTHY[truthy]
    d = {"name": "p", "priority": 10}
    keys = {"allow_external_sources": tv, "allow_template_vars": tv, "vars_allowed_paths": None}
    if kind in ("file", "http", "command"):
        it = ext_item(kind)
        if inject in (1, 3):
            it.update(keys)
        d["transformations"] = [it]
        depth, templ = 0, False
    elif kind == "nest-file":
        inner = ext_item("file")
        if inject in (2, 3):
            inner.update(keys)
        outer = {"type": "nest", "items": [inner]}
        if inject in (1, 3):
            outer.update({"allow_external_sources": tv})
        d["transformations"] = [outer]
        depth, templ = 1, False
    elif kind == "nest-nest-command":
        inner = ext_item("command")
        if inject in (2, 3):
            inner.update(keys)
        mid = {"type": "nest", "items": [inner]}
        if inject == 3:
            mid.update({"allow_external_sources": tv})
        d["transformations"] = [{"type": "nest", "items": [mid]}]
        depth, templ = 2, False
    elif kind in ("tpl-call-post", "tpl-call-fin"):
        inner = [("command_placeholders", "'cmd': 'id'"), ("file_placeholders", "'path': '/etc/passwd'"), ("http_placeholders", "'url': 'http://attacker.example/x'"), ("command_placeholders", "'cmd': 'id'")][truthy]
        text = TPL_CALL % inner
        if kind == "tpl-call-post":
            d["postprocessing"] = [{"type": "template", "template": "{{ query }} " + text}]
        else:
            d["finalizers"] = [{"type": "template", "template": "{{ queries | join(' ') }} " + text}]
        depth, templ = 0, False
    elif kind == "post-template":
        it = {"type": "template", "template": "{{ query }}", "vars": "/evil/vars.py"}
        if inject in (1, 3):
            it.update(keys)
        d["postprocessing"] = [it]
        depth, templ = 0, True
    else:
        f = {"type": "template", "template": "{{ queries }}", "vars": "/evil/vars.py"}
        if inject in (2, 3):
            f.update(keys)
        depth = {"fin-template": 0, "nested-fin-1": 1, "nested-fin-2": 2, "nested-fin-3": 3}[kind]
        cur = f
        for lvl in range(depth):
            cur = {"type": "nested", "finalizers": [cur]}
            if inject in (1, 3):
                cur.update({"allow_template_vars": tv, "vars_allowed_paths": None})
        if depth == 0 and inject in (1, 3):
            cur.update(keys)
        d["finalizers"] = [cur]
        templ = True
    if inject == 4:
        d["allow_external_sources"] = tv
        d["allow_template_vars"] = tv
    return d, templ, depth


RULE = {"title": "t", "logsource": {"category": "c"}, "detection": {"sel": {"f|expand": "%users%"}, "condition": "sel"}}


def flags_of(pipeline):
    """All capability flags found on instantiated items (recursively through nested pipelines)."""
    out = []

    def visit_pipeline(p):
        for it in p.items:
            visit(it.transformation)
        for it in p.postprocessing_items:
            visit(it.transformation)
        for f in p.finalizers:
            visit(f)

    def visit(obj):
        for attr in ("allow_external_sources", "allow_template_vars"):
            if hasattr(obj, attr):
                out.append(getattr(obj, attr))
        np = getattr(obj, "_nested_pipeline", None)
        if np is not None:
            visit_pipeline(np)

    visit_pipeline(pipeline)
    return out


ENVCLASSES = [None, "", "0", "1", "true", "TRUE", "True", "yes", "2", "false", " 1", "on"]


def injection_case(kd, inj, tr, cl, envval) -> bool:
    from sigma.backends.test import TextQueryTestBackend

    doc, templ, depth = build(kd, inj, tr)
    ENVVAL.clear()
    if envval is not None:
        ENVVAL[VARS_ENV if templ else EXT_ENV] = envval
    env_ok = envval is not None and envval.lower() in ("1", "true")
    err = None
    flags = []
    with Patched():
        try:
            p = ProcessingPipeline.from_dict(copy.deepcopy(doc), allow_template_vars=cl, allow_external_sources=cl)
            flags = flags_of(p)
            b = TextQueryTestBackend(p)
            rule = copy.deepcopy(RULE)
            if kd.startswith("tpl-call"):
                rule["detection"]["sel"] = {"f": "v"}  # nothing to expand: the query reaches post-processing / finalisation
            b.convert(SigmaCollection.from_dicts([rule]))
        except SigmaSecurityError:
            err = "security"
        except SigmaError:
            err = "sigma"
        reached = len(EVENTS) > 0
    ENVVAL.clear()
    must = (env_ok or (cl and depth == 0)) and not kd.startswith("tpl-call")
    may = env_ok or cl
    if kd.startswith("tpl-call") and inj != 0:
        return True  # no injection variants for these kinds
    if inj == 4:
        # unknown top-level keys must be refused; nothing may run
        return err == "sigma" and not reached
    ok = True
    if reached and not may:
        ok = False
    if must and not reached and not (inj != 0 and err == "sigma"):
        ok = False  # (a document with smuggled keys may also be rejected as a whole)
    if not reached and not may and not (err == "security" or (inj != 0 and err == "sigma")):
        ok = False  # refused silently or with the wrong error
    # capability bits never originate from the document
    for f in flags:
        if f is not True and f is not False:
            ok = False
        if f is True and not cl:
            ok = False
    return ok


def c16a_injection(kind: int, inject: int, truthy: int, caller: bool, envc: int) -> bool:
    """
    pre: P("KLO", 0) <= kind < min(len(KINDS), P("KHI", 99))
    pre: 0 <= inject < 5
    pre: 0 <= truthy < 4
    pre: 0 <= envc < len(ENVCLASSES)
    post: _
    """
    kd, inj, tr = KINDS[sel(kind, len(KINDS))], sel(inject, 5), sel(truthy, 4)
    cl = selb(caller)
    ev = ENVCLASSES[sel(envc, len(ENVCLASSES))]
    with concrete_section():
        ok = injection_case(kd, inj, tr, cl, ev)
    return fin(ok)


def c16a_gate(env: str, envset: bool, flag: bool, which: int) -> bool:
    """
    pre: len(env) <= P("ENVLEN", 4)
    pre: envset or env == ""
    pre: P("W", 0) <= which <= P("W", 0)
    pre: all(ord(c) < 128 for c in env)
    post: _
    """
    # the gate functions themselves on a SYMBOLIC environment value: all strings up to the bound
    from sigma.processing.postprocessing import QueryTemplateTransformation
    from sigma.processing.transformations.external import CommandPlaceholderTransformation, FilePlaceholderTransformation, HTTPPlaceholderTransformation

    w = sel(which, 4)
    fl = selb(flag)
    with concrete_section():
        if w == 0:
            obj = FilePlaceholderTransformation(path="/x", allow_external_sources=fl)
        elif w == 1:
            obj = HTTPPlaceholderTransformation(url="http://x", allow_external_sources=fl)
        elif w == 2:
            obj = CommandPlaceholderTransformation(cmd="id", allow_external_sources=fl)
        else:
            obj = QueryTemplateTransformation(template="x", allow_template_vars=fl)
    ENVVAL.clear()
    if envset:
        ENVVAL[VARS_ENV if w == 3 else EXT_ENV] = env
    with Patched():
        got = obj._vars_execution_allowed() if w == 3 else obj._external_sources_allowed()
    ENVVAL.clear()
    low = env.lower()
    want = fl or (envset and (low == "1" or low == "true"))
    return fin(got == want)


# ---------------------------------------------------------------- b. allowed paths
COMPS = ["a", "ab", "b", ".."]


def mkpath(n, cs):
    return "/" + "/".join(COMPS[c] for c in cs[:n])


def c16b_paths(nv: int, v0: int, v1: int, v2: int, nb: int, b0: int, b1: int, link: int) -> bool:
    """
    pre: 1 <= nv <= 3 and 1 <= nb <= 2
    pre: 0 <= v0 < 4 and 0 <= v1 < 4 and 0 <= v2 < 4 and 0 <= b0 < 3 and 0 <= b1 < 3
    pre: nv >= 3 or v2 == 0
    pre: nv >= 2 or v1 == 0
    pre: nb >= 2 or b1 == 0
    pre: 0 <= link < 3
    post: _
    """
    from sigma.processing.postprocessing import QueryTemplateTransformation

    n, m = sel(nv - 1, 3) + 1, sel(nb - 1, 2) + 1
    vs = [sel(v0, 4), sel(v1, 4), sel(v2, 4)]
    bs = [sel(b0, 3), sel(b1, 3)]
    lk = sel(link, 3)
    with concrete_section():
        vars_path = mkpath(n, vs) + "/v.py"
        base = mkpath(m, bs)
        # canonicalisation as the real file system would do it (".." and symlinks)
        def canon(p):
            out = []
            for c in p.split("/"):
                if c == "" or c == ".":
                    continue
                if c == "..":
                    if out:
                        out.pop()
                else:
                    out.append(c)
            return "/" + "/".join(out)

        target = {0: None, 1: "/outside/v.py", 2: base + "x/v.py"}[lk]  # symlink: vars path resolves elsewhere

        def realpath(p):
            if target is not None and p == vars_path:
                return target
            return canon(p)

        final = realpath(vars_path)
        cb = canon(base)
        inside = final == cb or final.startswith(cb + "/") if cb != "/" else True
        with Patched(realpath):
            err = None
            try:
                QueryTemplateTransformation(template="{{ query }}", vars=vars_path, allow_template_vars=True, vars_allowed_paths=(base,))
            except SigmaSecurityError:
                err = "security"
            except (SigmaError, ValueError):
                err = "other"
            executed = [e for e in EVENTS if e[0] == "pyexec"]
        ok = True
        if executed and not inside:
            ok = False
        if executed and executed[0][1] != final:
            ok = False  # the file that was checked must be the file that is executed
        if inside and not executed and cb != "/":
            ok = False
        if not inside and err != "security":
            ok = False
    return fin(ok)


def c16b_nested(depth: int, where: int, inside: bool, via_source: bool) -> bool:
    """
    pre: 0 <= depth <= 3
    pre: 0 <= where < 2
    post: _
    """
    dp, wh, ins, vs = sel(depth, 4), sel(where, 2), selb(inside), selb(via_source)
    with concrete_section():
        vars_path = "/pipelines/sub/v.py" if ins else "/pipelines-evil/v.py"
        if wh == 0:
            item = {"type": "template", "template": "{{ queries }}", "vars": vars_path}
            for _ in range(dp):
                item = {"type": "nested", "finalizers": [item]}
            doc = {"name": "p", "priority": 1, "finalizers": [item]}
        else:
            if dp != 0:
                return True
            doc = {"name": "p", "priority": 1, "postprocessing": [{"type": "template", "template": "{{ query }}", "vars": vars_path}]}
        err = None
        with Patched():
            try:
                if vs:
                    import yaml

                    ProcessingPipeline.from_yaml(yaml.safe_dump(doc), allow_template_vars=True, source_path="/pipelines/p.yml")
                else:
                    ProcessingPipeline.from_dict(copy.deepcopy(doc), allow_template_vars=True, vars_allowed_paths=("/pipelines",))
            except SigmaSecurityError:
                err = "security"
            except (SigmaError, ValueError):
                err = "other"
            executed = [e[1] for e in EVENTS if e[0] == "pyexec"]
        ok = (executed == [vars_path] and err is None) if ins else (executed == [] and err == "security")
    return fin(ok)


def c16_source_path_default() -> bool:
    """from_yaml(source_path=...) without explicit allowed paths restricts vars files to the pipeline's directory."""
    yml = "name: p\npriority: 1\nfinalizers:\n  - type: template\n    template: x\n    vars: /somewhere/else/v.py\n"
    with Patched():
        try:
            ProcessingPipeline.from_yaml(yml, allow_template_vars=True, source_path="/pipelines/p.yml")
        except SigmaSecurityError:
            ok1 = not EVENTS
        else:
            ok1 = False
    yml2 = yml.replace("/somewhere/else/v.py", "/pipelines/sub/v.py")
    with Patched():
        try:
            ProcessingPipeline.from_yaml(yml2, allow_template_vars=True, source_path="/pipelines/p.yml")
            ok2 = [e for e in EVENTS if e[0] == "pyexec"] == [("pyexec", "/pipelines/sub/v.py")]
        except SigmaError:
            ok2 = False
    return ok1 and ok2


OBLIGATIONS = (
    [Ob("c16a_injection", {"KLO": k, "KHI": k + 1}, 900) for k in range(len(KINDS))]
    + [Ob("c16a_gate", {"ENVLEN": 4, "W": w}, 600) for w in range(4)]
    + [Ob("c16b_paths", {}, 900), Ob("c16b_nested", {}, 300)]
    + [Ob("c16a_gate", {"ENVLEN": 6, "W": w}, 3000, tier="thorough") for w in range(4)]
)

SELFCHECKS = [
    ("c16a_injection", {}, (0, 0, 0, False, 0), True),
    ("c16a_injection", {}, (2, 3, 0, False, 2), True),
    ("c16a_injection", {}, (2, 0, 0, False, 5), True),
    ("c16a_injection", {}, (6, 3, 2, True, 0), True),
    ("c16a_gate", {}, ("0", True, False, 2), True),
    ("c16_source_path_default", {}, (), True),
]
