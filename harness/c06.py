"""C06 - serialising a rule and loading it again preserves its meaning.

Engine E1 over selector spaces (value text from character selectors, detection shape, metadata
variant, transformation, correlation type ...); each path runs the real from_dict / to_dict /
from_dict (and YAML dump / load) chain and converts both objects with the verification backend.
a. detection rules: d1 = to_dict(x); x2 = from_dict(d1); to_dict(x2) == d1 and queries(x2) ==
   queries(x); the same through yaml.safe_dump / SigmaRule.from_yaml; metadata variants.
b. after one pipeline transformation: to_dict() raises a SigmaError or reloads to a rule with the
   same queries as the transformed object.
c. correlation rules (8 types, aliases, extended conditions, generate, percentile 0) and filters,
   inside a collection, compared by dict form and by the queries of the whole collection.
"""
import copy

from backends.vbackend import make_backend
from harness.c05 import kf_plain_backslash
from sigma.collection import SigmaCollection
from sigma.correlations import SigmaCorrelationRule
from sigma.exceptions import SigmaError
from sigma.filters import SigmaFilter
from sigma.processing.pipeline import ProcessingPipeline
from sigma.rule import SigmaRule
from vlib.known import excluded, is_open
from vlib.obl import Ob
from vlib.params import P, concrete_section, fin, sel, selb

PROPERTY = "C06"
TARGETS = [
    "sigma.rule.base:SigmaRuleBase.to_dict",
    "sigma.rule.rule:SigmaRule.to_dict",
    "sigma.rule.detection:SigmaDetectionItem.to_plain",
    "sigma.rule.detection:SigmaDetection.to_plain",
    "sigma.rule.detection:SigmaDetections.to_dict",
    "sigma.rule.logsource:SigmaLogSource.to_dict",
    "sigma.types:SigmaString.to_plain",
    "sigma.types:SigmaType.to_plain",
    "sigma.correlations:SigmaCorrelationRule.to_dict",
    "sigma.correlations:SigmaCorrelationCondition.to_dict",
    "sigma.filters:SigmaFilter.to_dict",
    "sigma.filters:SigmaGlobalFilter.to_dict",
]
ALPH = ["a", "*", "?", "\\", " ", "%", "-", "1"]
BOUNDS = {
    "values": f"strings of length <= 2 (quick) / <= 3 (thorough) over {ALPH!r} in 18 detection shapes (single value, lists, |all, |re (+flags), keywords, lists of maps, single-element list, several modifiers, null / number / bool, base64offset, cidr, windash, exists, compare, fieldref, expand, cased)",
    "metadata": "16 metadata variants (dates in both spellings, status, level, tags, related, references, author, fields, falsepositives, scope, taxonomy, custom attributes, name)",
    "after transformation": "15 transformations (incl. several one-to-many mapped fields, regex, hashes_fields) x 21 rule shapes (incl. encoding modifiers, windash, cased, regular expression with flag, Hashes)",
    "correlations/filters": "8 types x aliases x group-by x generate x percentile {0, 90} ; extended conditions ; 4 filter shapes",
    "outside": "YAML text with symbolic strings (documents are dumped with yaml.safe_dump per path); longer values",
}
ASSUMPTIONS = ["equality of meaning = equal query strings of the verification backend"]

SHAPES = [
    lambda v: {"f": v},
    lambda v: {"f": [v, "w"]},
    lambda v: {"f|contains|all": [v, "w"]},
    lambda v: {"f|re": v},
    lambda v: {"f|re|i|m": v},
    lambda v: [v, "k"],
    lambda v: [{"f": v}, {"g": "w"}],
    lambda v: {"f": [v]},
    lambda v: {"f|startswith": v, "g|endswith": v},
    lambda v: {"f": None, "g": 5, "h": True, "i": v},
    lambda v: {"f|base64offset|contains": v},
    lambda v: {"f|cidr": "10.0.0.0/8", "g": v},
    lambda v: {"f|windash|contains": v},
    lambda v: {"f|exists": True, "g": v},
    lambda v: {"f|gte": 5, "g": v},
    lambda v: {"f|fieldref": "g", "h": v},
    lambda v: {"f|expand": "%a%" + v},
    lambda v: {"f|cased": v},
]


def queries(rule_or_coll, pipeline=None):
    b = make_backend(0)
    if pipeline is not None:
        b.processing_pipeline = pipeline
    if isinstance(rule_or_coll, SigmaCollection):
        return list(b.convert(rule_or_coll))
    return list(b.convert_rule(rule_or_coll))


def roundtrip_rule(doc, via_yaml: bool) -> bool:
    try:
        x = SigmaRule.from_dict(copy.deepcopy(doc))
    except SigmaError:
        return True  # not a loadable document (e.g. invalid regular expression): outside
    d1 = x.to_dict()
    if via_yaml:
        import yaml

        x2 = SigmaRule.from_yaml(yaml.safe_dump(copy.deepcopy(d1)))
    else:
        x2 = SigmaRule.from_dict(copy.deepcopy(d1))
    d2 = x2.to_dict()
    if d1 != d2:
        return False
    try:
        q1 = queries(SigmaRule.from_dict(copy.deepcopy(doc)))
    except SigmaError as e:
        q1 = "error " + type(e).__name__
    try:
        q2 = queries(x2)
    except SigmaError as e:
        q2 = "error " + type(e).__name__
    return q1 == q2


def c06a_values(shape: int, n: int, k0: int, k1: int, k2: int, via_yaml: bool) -> bool:
    """
    pre: P("SLO", 0) <= shape < min(len(SHAPES), P("SHI", 99))
    pre: 0 <= n <= P("LEN", 2)
    pre: 0 <= k0 < len(ALPH) and 0 <= k1 < len(ALPH) and 0 <= k2 < len(ALPH)
    pre: n >= 3 or k2 == 0
    pre: n >= 2 or k1 == 0
    pre: n >= 1 or k0 == 0
    post: _
    """
    sh = sel(shape, len(SHAPES))
    nn = sel(n, 4)
    ks = [sel(k0, len(ALPH)), sel(k1, len(ALPH)), sel(k2, len(ALPH))]
    v = "".join(ALPH[ks[i]] for i in range(nn))
    vy = selb(via_yaml)
    with concrete_section():
        if excluded("plain-backslash-before-special", kf_plain_backslash(v) or kf_plain_backslash("%a%" + v)):
            return True
        doc = {"title": "t", "logsource": {"category": "c"}, "detection": {"sel": SHAPES[sh](v), "condition": "sel"}}
        ok = roundtrip_rule(doc, vy)
    return fin(ok)


META = [
    {"date": "2024-01-02"}, {"date": "2024/1/3"}, {"modified": "2024/01/03", "date": "2023-12-31"}, {"status": "experimental"}, {"level": "critical"},
    {"tags": ["attack.t1059", "cve.2024-1"]}, {"related": [{"id": "08fbc97d-0a2f-491c-ae21-8ffcfd3174e9", "type": "derived"}]}, {"references": ["https://a", "https://b"]},
    {"author": "x, y"}, {"fields": ["a", "b"]}, {"falsepositives": ["none"]}, {"scope": ["server"]}, {"taxonomy": "custom"}, {"custom": {"k": [1, 2]}, "other": "z"},
    {"name": "rule_name", "id": "9a6cafa7-1481-4e64-89a1-1f69ed08618c", "description": "d\nmulti"}, {"license": "MIT"},
]


def c06a_meta(mi: int, mj: int, via_yaml: bool) -> bool:
    """
    pre: 0 <= mi < len(META) and 0 <= mj < len(META)
    post: _
    """
    a, b, vy = sel(mi, len(META)), sel(mj, len(META)), selb(via_yaml)
    with concrete_section():
        doc = {"title": "t", "logsource": {"category": "c", "product": "p", "service": "s"}, "detection": {"sel": {"f": "v"}, "flt": {"g|contains": ["x", "y"]}, "condition": ["sel", "sel and not flt"]}}
        doc.update(copy.deepcopy(META[a]))
        doc.update(copy.deepcopy(META[b]))
        ok = roundtrip_rule(doc, vy)
    return fin(ok)


# ---------------------------------------------------------------- b. after one transformation
TRANSFORMS = [
    {"type": "field_name_mapping", "mapping": {"f": "mf"}},
    {"type": "field_name_mapping", "mapping": {"f": ["m1", "m2"]}},
    {"type": "field_name_mapping", "mapping": {"f": "m", "g": "m", "h": "m"}},
    {"type": "replace_string", "regex": "^v", "replacement": "w"},
    {"type": "map_string", "mapping": {"v": ["w1", "w2"]}},
    {"type": "drop_detection_item", "field_name_conditions": [{"type": "include_fields", "fields": ["g"]}]},
    {"type": "add_condition", "conditions": {"idx": "main"}},
    {"type": "set_value", "value": "x", "field_name_conditions": [{"type": "include_fields", "fields": ["g"]}]},
    {"type": "case", "method": "upper"},
    {"type": "field_name_mapping", "mapping": {None: "msg"}},
    {"type": "field_name_mapping", "mapping": {"f": ["x", "y"], "g": ["u", "w"]}},
    {"type": "regex"},
    {"type": "regex", "method": "plain"},
    {"type": "hashes_fields", "valid_hash_algos": ["MD5", "SHA1"], "field_prefix": "File"},
    {"type": "field_name_mapping", "mapping": {"f": ["x", "y"]}},
]
TSHAPES = [
    {"f": "v"}, {"f": "v", "g": "ww"}, {"f": ["v", "u"]}, {"f|contains|all": ["v", "uu"], "g|contains|all": "ww"}, {"f|contains|all": ["v", "uu"], "g|contains|all": ["ww", "zz"]},
    {"f|contains|all": "vv", "g|contains|all": "ww", "h|contains|all": "yy"}, ["v", "kk"], [{"f": "v"}, {"g": "ww"}], {"f|startswith": "v", "g": 5}, {"f|re": "v.*", "g|fieldref": "f"},
    {"f|contains": "v", "g|contains": "v"}, {"f": None, "g": "ww"},
    {"f|base64": "vv"}, {"f|wide|base64offset|contains": "vv"}, {"f|windash|contains": "-v"}, {"f|cased": "Vv", "g|re|i": "a.b"},
    {"Hashes|contains|all": ["MD5=4fae81eb7018069e75a087c38af783df", "SHA1=6a4b7de61d9c29d5b2e0ca8a4a2e5a4f8a9b0c1d"], "Hash": "4fae81eb7018069e75a087c38af783df"},
    {"f": ["v", "u"], "g": "ww"}, {"f|contains": "ww", "g|contains": ["v", "u"]}, {"f": ["v", "u"], "g": ["ww", "zz"]}, {"f": ["v", "u"], "g": "ww", "h": "yy"},
]


def check_transformed(ti: int, si: int) -> bool:
    doc = {"title": "t", "logsource": {"category": "c"}, "detection": {"sel": copy.deepcopy(TSHAPES[si]), "condition": "sel"}}
    rule = SigmaRule.from_dict(doc)
    p = ProcessingPipeline.from_dict({"name": "p", "priority": 1, "transformations": [copy.deepcopy(TRANSFORMS[ti])]})
    p.apply(rule)
    try:
        d1 = rule.to_dict()
    except SigmaError:
        return True  # can no longer be written faithfully: refusing is the allowed alternative
    try:
        q1 = queries(rule)
    except SigmaError as e:
        q1 = "error " + type(e).__name__
    try:
        x2 = SigmaRule.from_dict(copy.deepcopy(d1))
        q2 = queries(x2)
    except SigmaError as e:
        q2 = "error " + type(e).__name__
    except Exception as e:  # the written dict is not even a loadable document
        return False
    return q1 == q2


def c06b_concrete(ti: int, si: int) -> bool:
    return check_transformed(ti, si)


def c06b_transformed(ti: int, si: int) -> bool:
    """
    pre: 0 <= ti < len(TRANSFORMS)
    pre: 0 <= si < len(TSHAPES)
    post: _
    """
    a, b = sel(ti, len(TRANSFORMS)), sel(si, len(TSHAPES))
    with concrete_section():
        ok = check_transformed(a, b)
    return fin(ok)


# ---------------------------------------------------------------- c. correlation rules and filters
CTYPES = ["event_count", "value_count", "temporal", "temporal_ordered", "value_sum", "value_avg", "value_percentile", "value_median"]
BASE = [
    {"title": "ra", "name": "ra", "id": "00000000-0000-0000-0000-000000000001", "logsource": {"category": "c"}, "detection": {"sel": {"f": "a"}, "condition": "sel"}},
    {"title": "rb", "name": "rb", "id": "00000000-0000-0000-0000-000000000002", "logsource": {"category": "c"}, "detection": {"sel": {"f": "b"}, "condition": "sel"}},
]


def corr_doc(ti, aliases, gb, gen, pct, ext):
    t = CTYPES[ti]
    c = {"type": t, "rules": ["ra", "rb"], "timespan": "10m"}
    if gb:
        c["group-by"] = ["user"] if not aliases else ["au"]
    if aliases:
        c["aliases"] = {"au": {"ra": "user", "rb": "account"}}
    if gen is not None:
        c["generate"] = gen
    if ext and t in ("temporal", "temporal_ordered"):
        c["condition"] = "ra and not rb"
    elif t in ("temporal", "temporal_ordered"):
        c["condition"] = {"gte": 2}
    else:
        cond = {"gte": 3}
        if t != "event_count":
            cond["field"] = "amount"
        if t == "value_percentile":
            cond["percentile"] = pct
        c["condition"] = cond
    return {"title": "corr", "name": "corr", "id": "00000000-0000-0000-0000-000000000009", "status": "test", "correlation": c}


def corr_backend():
    from harness.c10 import corr_backend_class

    return corr_backend_class(False, False, 0)()


def check_corr(ti, aliases, gb, gen, pct, ext) -> bool:
    doc = corr_doc(ti, aliases, gb, gen, pct, ext)
    try:
        x = SigmaCorrelationRule.from_dict(copy.deepcopy(doc))
    except SigmaError:
        return True
    d1 = x.to_dict()
    x2 = SigmaCorrelationRule.from_dict(copy.deepcopy(d1))
    if x2.to_dict() != d1:
        return False

    def conv(cdoc):
        try:
            return list(corr_backend().convert(SigmaCollection.from_dicts(copy.deepcopy(BASE) + [copy.deepcopy(cdoc)])))
        except SigmaError as e:
            return "error " + type(e).__name__

    return conv(doc) == conv(d1)


def c06c_corr(ti: int, aliases: bool, gb: bool, gen: int, pct: int, ext: bool) -> bool:
    """
    pre: 0 <= ti < 8
    pre: 0 <= gen < 3
    pre: 0 <= pct < 2
    post: _
    """
    t, al, g, ge, pc, ex = sel(ti, 8), selb(aliases), selb(gb), sel(gen, 3), sel(pct, 2), selb(ext)
    with concrete_section():
        ok = check_corr(t, al, g, [None, False, True][ge], [0, 90][pc], ex)
    return fin(ok)


FILTERS = [
    {"rules": ["ra"], "sel": {"u|startswith": "adm"}, "condition": "not sel"},
    {"rules": "any", "sel": {"u": ["a", "b"]}, "other": ["k"], "condition": "not 1 of them"},
    {"rules": ["00000000-0000-0000-0000-000000000001", "rb"], "sel": {"u|re": "a.*"}, "condition": "sel"},
    {"rules": [], "sel": [{"u": "x"}, {"v": 1}], "condition": "not sel"},
]


def check_filter(fi: int) -> bool:
    doc = {"title": "flt", "id": "00000000-0000-0000-0000-00000000000f", "logsource": {"category": "c"}, "filter": copy.deepcopy(FILTERS[fi])}
    x = SigmaFilter.from_dict(copy.deepcopy(doc))
    d1 = x.to_dict()
    x2 = SigmaFilter.from_dict(copy.deepcopy(d1))
    if x2.to_dict() != d1:
        return False

    def conv(fdoc):
        import sigma.filters as F

        saved = F.random.choices
        F.random.choices = lambda population, k=1, **kw: list("abcdefghij"[:k])
        try:
            return list(make_backend(0).convert(SigmaCollection.from_dicts(copy.deepcopy(BASE) + [copy.deepcopy(fdoc)])))
        except SigmaError as e:
            return "error " + type(e).__name__
        finally:
            F.random.choices = saved

    return conv(doc) == conv(d1)


def c06c_filter(fi: int) -> bool:
    """
    pre: 0 <= fi < len(FILTERS)
    post: _
    """
    f = sel(fi, len(FILTERS))
    with concrete_section():
        ok = check_filter(f)
    return fin(ok)


def c06a_concrete(shape: int, v: str, via_yaml: bool) -> bool:
    doc = {"title": "t", "logsource": {"category": "c"}, "detection": {"sel": SHAPES[shape](v), "condition": "sel"}}
    return roundtrip_rule(doc, via_yaml)


OBLIGATIONS = [
    Ob("c06a_values", {}, 900),
] + [Ob("c06a_values", {"LEN": 3, "SLO": lo, "SHI": lo + 3}, 1800, tier="thorough") for lo in range(0, len(SHAPES), 3)] + [
    Ob("c06a_meta", {}, 600),
    Ob("c06b_transformed", {}, 600),
    Ob("c06c_corr", {}, 600),
    Ob("c06c_filter", {}, 120),
]

SELFCHECKS = [
    ("c06a_concrete", {}, (0, "a*", False), True),
    ("c06a_concrete", {}, (4, "a.?b", True), True),
    ("c06a_concrete", {}, (2, "x", True), True),
]
