"""C11 - a filter narrows exactly the rules it targets and nothing else.

Engine E1 (+ z3-decided boolean equivalence).  Symbolic selectors choose log sources of filter and
rules (all subset relations), the filter's rule list form (by id / by name / any / empty / unknown),
detection names on both sides (overlapping names, names starting with keywords, digits, underscore,
a name that collides with the internal prefix), the condition forms on both sides, the number of
stacked filters and the draw of the internal random prefix (random.choices is stubbed: the property
quantifies over every draw).  The collection is loaded and converted with the real code and the
verification backend; each rule's query is parsed back and compared (z3, all truth assignments)
with the reference  (rule condition) AND (filter condition over the filter's own detections)  or
with the unfiltered rule when the filter must not apply.
"""
import copy

from backends.vbackend import make_backend
from ref import condition as RC
from ref import querylang as Q
from ref import spec_eval as S
from sigma.collection import SigmaCollection
from sigma.exceptions import SigmaError
from sigma.rule.logsource import SigmaLogSource
from vlib.known import is_open
from vlib.obl import Ob
from vlib.params import P, concrete_section, fin, sel, selb
from vlib.z3util import equivalent

PROPERTY = "C11"
TARGETS = [
    "sigma.filters:SigmaFilter._should_apply_on_rule",
    "sigma.filters:SigmaFilter.apply_on_rule",
    "sigma.filters:SigmaGlobalFilter.from_dict",
    "sigma.rule.logsource:SigmaLogSource.__contains__",
    "sigma.collection:SigmaCollection.__post_init__",
    "sigma.collection:SigmaCollection.apply_filters",
    "sigma.collection:SigmaCollection.resolve_rule_references",
    "sigma.conditions:ConditionSelector.resolve_referenced_detections",
]
BOUNDS = {
    "log sources": "category/product/service of filter and rule each absent or one of two values (all subset relations)",
    "rule lists": "by id, by name, both, 'any', 'ANY', empty list, unknown reference, other rule's id, id in upper case",
    "names/conditions": "rule detection name sets x 8 rule condition forms x filter detection name sets x 9 filter condition forms (see RULE_NAMES, FILTER_NAMES, RCONDS, FCONDS); 1 or 2 stacked filters; 3 draws of the internal prefix incl. one colliding with a rule detection name",
    "thorough": "the names/conditions/stacking/draw space crossed with the 9 category relations (filter/rule category absent or one of two values) and 4 rule-list forms",
    "shared filters": "one or two stacked filters with rules 'any' applied to TWO rules of one collection (12 x 4 rule sets x 11 filter sets x 2 draws), with and without a pipeline that prefixes every field name; REP=1: two conditions per rule and the second rule is an `action: repeat` of the first document",
    "outside": "other names / condition shapes; filters on correlation rules (never applied by design); more than 2 stacked filters",
}
ASSUMPTIONS = [
    "stub: random.choices (as used by sigma.filters) returns a harness-chosen 10-letter string",
    "a filter condition using 'them' together with an underscore-prefixed filter detection name is left unspecified (skipped)",
]

VALS = [None, "a", "b"]
RID = "1111aaaa-1111-4111-8111-11111111abcd"
OTHER = "22222222-2222-2222-2222-222222222222"
DRAWS = ["abcdefghij", "zzzzzzzzzz", "filtfiltfi"]

# rule side: (detection names, condition)
RULE_SETS = [
    (["sel"], "sel"),
    (["sel", "sel2"], "1 of them"),
    (["sel", "sel2"], "all of sel*"),
    (["sel", "filt"], "sel and not filt"),
    (["sel", "f1"], "1 of *"),
    (["sel", "_x"], "sel or _x"),
    (["1sel", "sel"], "1sel and sel"),
    (["not_a", "Not"], "not_a or Not"),
    (["sel", "_filt_zzzzzzzzzz_f1"], "sel and _filt_zzzzzzzzzz_f1"),
    (["sel", "x_s"], "(sel) or (x_s)"),
    (["sel", "y_f"], "sel or 1 of *_f"),
    (["sel", "y_f"], "all of *_*"),
]
# filter side: (detection names, condition)
FILTER_SETS = [
    (["f1"], "f1"),
    (["f1"], "not f1"),
    (["sel"], "not sel"),
    (["f1", "f2"], "1 of them"),
    (["f1", "f2"], "not all of f*"),
    (["f1", "sel2"], "f1 and not sel2"),
    (["1f"], "not 1f"),
    (["_f"], "not _f"),
    (["Not", "all_x"], "Not or all_x"),
    (["f1", "x_f"], "not 1 of *_f"),
    (["f1", "f2"], "(f1) or (f2)"),
]


def rule_doc(names, cond, ls, rid=RID, name="target", off=0):
    det = {n: {f"r{off}{i}": f"rv{off}{i}"} for i, n in enumerate(names)}
    det["condition"] = cond
    return {"title": name, "id": rid, "name": name, "logsource": ls, "detection": det}


def filter_doc(names, cond, ls, rules, k=0):
    flt = {n: {f"q{k}{i}": f"fv{k}{i}"} for i, n in enumerate(names)}
    flt["condition"] = cond
    flt["rules"] = rules
    return {"title": f"filter{k}", "logsource": ls, "filter": flt}


def ls_dict(c, p, s):
    d = {k: v for k, v in (("category", c), ("product", p), ("service", s)) if v is not None}
    return d


def filter_formula(fdoc):
    flt = fdoc["filter"]
    names = [k for k in flt if k not in ("condition", "rules")]
    env = {n: S.detection_formula(flt[n]) for n in names}
    return S._subst(RC.parse(flt["condition"], names), env)


def convert_docs(docs, draw, pipeline=None):
    import sigma.filters as F

    saved = F.random.choices
    calls = []

    def fake_choices(population, k=1, **kw):
        # first draw: the harness-chosen string; later draws (re-draw after a collision, further filters): distinct strings
        calls.append(1)
        text = draw if len(calls) == 1 else chr(ord("k") + (len(calls) % 10)) * 10
        return list((text * 3)[:k])

    F.random.choices = fake_choices
    try:
        coll = SigmaCollection.from_dicts(copy.deepcopy(docs))
        b = make_backend(0)
        if pipeline is not None:
            from sigma.processing.pipeline import ProcessingPipeline

            b.processing_pipeline = ProcessingPipeline.from_dict(copy.deepcopy(pipeline))
        b.convert(coll)
        return {r.title: list(r.get_conversion_result()) for r in coll.rules}
    finally:
        F.random.choices = saved


def check(rs: int, fs: int, fls, rls, rules_form: int, stacked: bool, draw: int) -> bool:
    rnames, rcond = RULE_SETS[rs]
    fnames, fcond = FILTER_SETS[fs]
    if "them" in fcond and any(n.startswith("_") for n in fnames):
        return True
    rule_ls, filt_ls = ls_dict(*rls), ls_dict(*fls)
    if not rule_ls or not filt_ls:
        return True
    target = rule_doc(rnames, rcond, rule_ls)
    bystander = rule_doc(["sel"], "sel", {"category": "zzz"}, OTHER, "bystander", 9)
    rules = [[RID], ["target"], [RID, "nosuch"], "any", "ANY", [], ["nosuch"], [OTHER], [RID.upper()]][rules_form]  # UUIDs are case-insensitive
    filters = [filter_doc(fnames, fcond, filt_ls, rules, 0)]
    if stacked:
        filters.append(filter_doc(["g1"], "not g1", filt_ls, rules, 1))
    covered = all(filt_ls.get(k) is None or filt_ls.get(k) == rule_ls.get(k) for k in ("category", "product", "service"))
    named = rules_form in (0, 1, 2, 3, 4, 5, 8)
    applies = covered and named
    try:
        got = convert_docs([target, bystander] + filters, DRAWS[draw])
    except SigmaError as e:
        return False
    base_t = S.formula_of_rule(target)
    base_b = S.formula_of_rule(bystander)
    want_t = base_t
    if applies:
        for f in filters:
            ff = filter_formula(f)
            want_t = [("and", [w, ff]) for w in want_t]
    for title, want in (("target", want_t), ("bystander", base_b)):
        qs = got.get(title)
        if qs is None or len(qs) != len(want):
            return False
        for q, w in zip(qs, want):
            try:
                f = Q.parse(q)
            except Q.QuerySyntaxError:
                return False
            # no internal identifier may surface in the query text
            if "_filt_" in q and "_filt_zzzzzzzzzz_f1" not in rnames:
                return False
            eq, _ = equivalent(f, w)
            if not eq:
                return False
    return True


# ---------------------------------------------------------------- one filter, several rules, a pipeline
PREFIX_PIPE = {"name": "p", "priority": 1, "transformations": [{"type": "field_name_prefix", "prefix": "win."}]}


def _prefixed(f, prefix):
    k = f[0]
    if k == "atom":
        a = f[1]
        if a[0] == "glob":
            return ("atom", (a[0], a[1], prefix + a[2], a[3]))
        if a[0] in ("num", "null"):
            return ("atom", (a[0], prefix + a[1]) + tuple(a[2:]))
        raise ValueError(a[0])
    if k == "not":
        return ("not", _prefixed(f[1], prefix))
    return (k, [_prefixed(x, prefix) for x in f[1]])


def check_shared(rs: int, rs2: int, fs: int, stacked: bool, piped: bool, draw: int, rep: bool = False) -> bool:
    """The same filter(s) applied to TWO rules of one collection (optionally converted through a pipeline that
    renames every field): each rule's query is (rule) AND (filter), as if the filter had been applied to it alone."""
    fnames, fcond = FILTER_SETS[fs]
    if "them" in fcond and any(n.startswith("_") for n in fnames):
        return True
    ls = {"category": "a"}
    t1 = rule_doc(*RULE_SETS[rs], ls)
    t2 = rule_doc(*RULE_SETS[rs2], ls, OTHER, "second", 5)
    second = t2
    if rep:
        # two conditions per rule, and the second rule is a collection-level repetition of the first document
        c = RULE_SETS[rs][1]
        t1["detection"]["condition"] = [c, f"not ({c})"]
        second = {"action": "repeat", "title": "second", "id": OTHER, "name": "second"}
        t2 = dict(copy.deepcopy(t1), title="second", id=OTHER, name="second")
    filters = [filter_doc(fnames, fcond, ls, "any", 0)]
    if stacked:
        filters.append(filter_doc(["g1"], "not g1", ls, "any", 1))
    try:
        got = convert_docs([t1, second] + filters, DRAWS[draw], PREFIX_PIPE if piped else None)
    except SigmaError:
        return False
    for title, doc, rnames in (("target", t1, RULE_SETS[rs][0]), ("second", t2, RULE_SETS[rs2][0])):
        want = S.formula_of_rule(doc)
        for f in filters:
            ff = filter_formula(f)
            want = [("and", [w, ff]) for w in want]
        if piped:
            want = [_prefixed(w, "win.") for w in want]
        qs = got.get(title)
        if qs is None or len(qs) != len(want):
            return False
        for q, w in zip(qs, want):
            try:
                f = Q.parse(q)
            except Q.QuerySyntaxError:
                return False
            if "_filt_" in q and "_filt_zzzzzzzzzz_f1" not in rnames:
                return False
            if not equivalent(f, w)[0]:
                return False
    return True


def c11_shared(rs: int, rs2: int, fs: int, stacked: bool, piped: bool, draw: int) -> bool:
    """
    pre: 0 <= rs < len(RULE_SETS) and 0 <= rs2 < (1 if P("REP", 0) else 4)
    pre: 0 <= fs < len(FILTER_SETS)
    pre: 0 <= draw < 2
    post: _
    """
    a, b, f = sel(rs, len(RULE_SETS)), sel(rs2, 4), sel(fs, len(FILTER_SETS))
    st, pp, dr = selb(stacked), selb(piped), sel(draw, 2)
    with concrete_section():
        ok = check_shared(a, b, f, st, pp, dr, bool(P("REP", 0)))
    return fin(ok)


def c11_strict_undefined_detection_error() -> bool:
    """Witness form for known finding c11-error-text-with-internal-prefix: the error for a filter condition that
    refers to an undefined detection must not contain the internal (randomly drawn) identifier prefix."""
    ls = {"category": "a"}
    docs = [rule_doc(["sel"], "sel", ls), {"title": "f", "logsource": ls, "filter": {"rules": "any", "f1": {"q": "v"}, "condition": "not nosuch"}}]
    try:
        convert_docs(docs, DRAWS[0])
    except SigmaError as e:
        return "_filt_" not in str(e)
    return True


def c11_shared_concrete(rs: int, rs2: int, fs: int, stacked: bool, piped: bool, draw: int, rep: bool = False) -> bool:
    return check_shared(rs, rs2, fs, stacked, piped, draw, rep)


def c11_filter(rs: int, fs: int, fc: int, fp: int, fsv: int, rc: int, rp: int, rsv: int, rf: int, stacked: bool, draw: int) -> bool:
    """
    pre: P("RSLO", 0) <= rs < min(len(RULE_SETS), P("RSHI", 99))
    pre: 0 <= fs < len(FILTER_SETS)
    pre: 0 <= fc < 3 and 0 <= fp < 3 and 0 <= fsv < 3 and 0 <= rc < 3 and 0 <= rp < 3 and 0 <= rsv < 3
    pre: max(0, P("RF", 0)) <= rf <= (P("RF", 0) if P("RF", -1) >= 0 else 8)
    pre: 0 <= draw < 3
    pre: P("MODE", 0) != 0 or (fc == 1 and fp == 0 and fsv == 0 and rc == 1 and rp == 1 and rsv == 0 and rf == 0)
    pre: P("MODE", 0) != 1 or (rs == 0 and fs == 0 and not stacked and draw == 0)
    pre: P("MODE", 0) != 2 or (fp == 0 and fsv == 0 and rp == 1 and rsv == 0 and rf < 4)
    post: _
    """
    r, f = sel(rs, len(RULE_SETS)), sel(fs, len(FILTER_SETS))
    fls = (VALS[sel(fc, 3)], VALS[sel(fp, 3)], VALS[sel(fsv, 3)])
    rls = (VALS[sel(rc, 3)], VALS[sel(rp, 3)], VALS[sel(rsv, 3)])
    form = sel(rf, 9)
    st, dr = selb(stacked), sel(draw, 3)
    with concrete_section():
        ok = check(r, f, fls, rls, form, st, dr)
    return fin(ok)


def c11_logsource(fc: int, fp: int, fsv: int, rc: int, rp: int, rsv: int) -> bool:
    """
    pre: 0 <= fc < 3 and 0 <= fp < 3 and 0 <= fsv < 3 and 0 <= rc < 3 and 0 <= rp < 3 and 0 <= rsv < 3
    pre: fc + fp + fsv > 0 and rc + rp + rsv > 0
    post: _
    """
    f = SigmaLogSource(VALS[sel(fc, 3)], VALS[sel(fp, 3)], VALS[sel(fsv, 3)])
    r = SigmaLogSource(VALS[sel(rc, 3)], VALS[sel(rp, 3)], VALS[sel(rsv, 3)])
    want = (f.category is None or f.category == r.category) and (f.product is None or f.product == r.product) and (f.service is None or f.service == r.service)
    return fin((r in f) == want)


def c11_concrete(rs: int, fs: int, rules_form: int, stacked: bool, draw: int) -> bool:
    return check(rs, fs, ("a", None, None), ("a", "a", None), rules_form, stacked, draw)


OBLIGATIONS = (
    # names / conditions / stacking / draws, filter applicable by id
    [Ob("c11_filter", {"MODE": 0, "RSLO": lo, "RSHI": lo + 2}, 900) for lo in range(0, len(RULE_SETS), 2)]
    # applicability: log source relations x rule list forms
    + [Ob("c11_filter", {"MODE": 1, "RF": r}, 900) for r in range(9)]
    + [Ob("c11_logsource", {}, 300)]
    + [Ob("c11_shared", {}, 900), Ob("c11_shared", {"REP": 1}, 900)]
    # thorough: names / conditions / stacking / draws crossed with category relations and rule-list forms
    + [Ob("c11_filter", {"MODE": 2, "RSLO": lo, "RSHI": lo + 1}, 2400, tier="thorough") for lo in range(len(RULE_SETS))]
)

SELFCHECKS = [
    ("c11_concrete", {}, (0, 0, 0, False, 0), True),
    ("c11_concrete", {}, (1, 2, 1, True, 1), True),
    ("c11_concrete", {}, (3, 4, 3, False, 0), True),
    ("c11_concrete", {}, (0, 0, 6, False, 0), True),
]
