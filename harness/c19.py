"""C19 - validation only observes: it is exact about references and changes nothing.

Engine E1 over selector spaces (each path runs the real validators concretely).
a. reference checks: every subset of 6 detection names (keyword-prefixed, underscore-prefixed) x
   14 condition forms (identifiers, them, prefix/suffix/inner patterns); oracle: dangling detection
   iff not referenced by name or matching selector (independent resolver of /verif/ref/condition.py),
   dangling condition iff a selector matches nothing.
b. uniqueness: 4 rules whose id / title / file name are chosen from 2..3 values each; oracle: issue
   groups == equivalence classes with more than one member (files: same name in different paths).
c. purity + order independence + exclusions: all built-in validators over a 4-rule collection in
   every rule order and several validator orders (the validator SET is replaced by a list in the
   chosen order), before and after conversion; to_dict() and queries unchanged; issue multisets equal;
   an exclusion table over (rule id, validator) suppresses exactly those issues.
"""
import copy
import itertools
from pathlib import Path
from uuid import UUID

from ref import condition as RC
from sigma.backends.test import TextQueryTestBackend
from sigma.collection import SigmaCollection
from sigma.exceptions import SigmaError, SigmaRuleLocation
from sigma.plugins import InstalledSigmaPlugins
from sigma.rule import SigmaRule
from sigma.validation import SigmaValidator
from sigma.validators.core.condition import DanglingConditionValidator, DanglingDetectionValidator
from sigma.validators.core.metadata import DuplicateFilenameValidator, DuplicateTitleValidator, IdentifierUniquenessValidator
from vlib.obl import Ob
from vlib.params import P, concrete_section, fin, sel, selb

PROPERTY = "C19"
TARGETS = [
    "sigma.validation:SigmaValidator.__init__",
    "sigma.validation:SigmaValidator.validate_rule",
    "sigma.validation:SigmaValidator.finalize",
    "sigma.validation:SigmaValidator.validate_rules",
    "sigma.validators.core.condition:DanglingDetectionValidator.condition_referenced_ids",
    "sigma.validators.core.condition:DanglingDetectionValidator.validate",
    "sigma.validators.core.condition:DanglingConditionValidator.condition_unknown_referenced_ids",
    "sigma.validators.core.condition:DanglingConditionValidator.validate",
    "sigma.validators.core.metadata:IdentifierUniquenessValidator",
    "sigma.validators.core.metadata:DuplicateTitleValidator",
    "sigma.validators.core.metadata:DuplicateFilenameValidator",
]
BOUNDS = {
    "references": "63 detection name subsets x 14 condition forms, 1..2 conditions per rule (quick: second condition from a 4-entry sub-pool; thorough: any)",
    "uniqueness": "4 rules, id from 3 values (+none), title from 2, file name from 2 names x 2 directories",
    "purity/order/exclusions": "4 rules in all 24 orders x 4 validator orders x before/after conversion x 8 exclusion tables; all built-in validators except the two that download MITRE data",
    "validator reuse": "one SigmaValidator (all offline validators, built by from_dict) used for two runs over the 4 rules in all 24 orders, before / after conversion; exclusions for one rule id given in 2 of 5 spellings (lower case, upper case, braces, urn:uuid:, without hyphens)",
    "outside": "validators from plugins; more than 4 rules",
}
ASSUMPTIONS = ["stub: the validator SET of SigmaValidator is replaced by a list in a chosen order to quantify over its unspecified iteration order"]

NAMES = ["sel", "sel2", "flt", "_x", "nota", "x1"]
CONDS = ["sel", "1 of them", "all of sel*", "sel and not flt", "1 of *", "1 of _*", "nota or x1", "1 of s* and not flt", "all of zz*", "1 of them and 1 of _x*", "sel or 1 of fl*", "not 1 of x*", "1 of *1 or all of *t*", "sel and 1 of them"]


SUB2 = [0, 3, 6, 8]  # second condition of the quick two-condition obligation: sel / sel and not flt / nota or x1 / all of zz*


def referenced(formula, acc, dangling):
    k = formula[0]
    if k == "v":
        acc.add(formula[1])
    elif k == "not":
        referenced(formula[1], acc, dangling)
    elif k in ("and", "or"):
        for a in formula[1]:
            referenced(a, acc, dangling)
    elif k == "sel":
        for a in formula[2]:
            acc.add(a[1])


def dangling_patterns(cond, names):
    """patterns of selectors that match no detection (reference tokeniser)."""
    toks = RC.tokenize(cond)
    out = set()
    for i, t in enumerate(toks):
        if t == "of" and i > 0 and toks[i - 1] in ("1", "any", "all") and i + 1 < len(toks):
            pat = toks[i + 1]
            if not RC.glob_names(pat, names):
                out.add(pat)
    return out


def check_refs(mask: int, c1: int, c2: int) -> bool:
    names = [n for i, n in enumerate(NAMES) if (mask >> i) & 1]
    if not names:
        return True
    conds = [CONDS[c1]] + ([CONDS[c2]] if c2 >= 0 else [])
    want_ref = set()
    want_dang = set()
    for c in conds:
        try:
            f = RC.parse(c, names)
        except KeyError:
            return True  # condition names a detection that does not exist: not a loadable rule
        referenced(f, want_ref, None)
        want_dang |= dangling_patterns(c, names)
    doc = {"title": "t", "logsource": {"category": "c"}, "detection": dict({n: {"f" + str(i): "v"} for i, n in enumerate(names)}, condition=conds if len(conds) > 1 else conds[0])}
    rule = SigmaRule.from_dict(doc)
    before = copy.deepcopy(rule.to_dict())
    got_unused = {i.detection_name for i in DanglingDetectionValidator().validate(rule)}
    got_dang = {i.condition_name for i in DanglingConditionValidator().validate(rule)}
    return got_unused == set(names) - want_ref and got_dang == want_dang and rule.to_dict() == before


def c19a_refs(mask: int, c1: int, c2: int) -> bool:
    """
    pre: 1 <= mask < 64
    pre: 0 <= c1 < len(CONDS)
    pre: -1 <= c2 < (len(CONDS) if P("TWO", 0) == 1 else len(SUB2) if P("TWO", 0) == 2 else 0)
    post: _
    """
    m = sel(mask, 64)
    a = sel(c1, len(CONDS))
    b = sel(c2 + 1, len(CONDS) + 1) - 1
    if b >= 0 and P("TWO", 0) == 2:
        b = SUB2[b]  # quick tier: second condition from a 4-entry sub-pool
    with concrete_section():
        ok = check_refs(m, a, b)
    return fin(ok)


# ---------------------------------------------------------------- b. uniqueness
IDS = [None, "1111aaaa-1111-4111-8111-11111111abcd", "22222222-2222-2222-2222-222222222222", "33333333-3333-3333-3333-333333333333"]
TITLES = ["A", "B"]
FILES = ["/r/a.yml", "/r/b.yml", "/s/a.yml", None]


def check_unique(ids, titles, files) -> bool:
    rules = []
    for i in range(4):
        # verbatim copies on purpose: rules that share id and title are equal as objects (only their identity differs)
        d = {"title": TITLES[titles[i]], "logsource": {"category": "c"}, "detection": {"sel": {"f": "v"}, "condition": "sel"}}
        if IDS[ids[i]] is not None:
            d["id"] = IDS[ids[i]]
        r = SigmaRule.from_dict(d)
        if FILES[files[i]] is not None:
            r.source = SigmaRuleLocation(Path(FILES[files[i]]))
        rules.append(r)
    v = SigmaValidator({IdentifierUniquenessValidator, DuplicateTitleValidator, DuplicateFilenameValidator})
    issues = v.validate_rules(iter(rules))

    def groups(kind):
        return sorted(sorted(id(r) for r in i.rules) for i in issues if type(i).__name__ == kind)

    def classes(keyfn):
        d = {}
        for r, k in zip(rules, keyfn):
            if k is not None:
                d.setdefault(k, []).append(id(r))
        return sorted(sorted(v) for v in d.values() if len(v) > 1)

    want_id = classes([IDS[x] for x in ids])
    want_title = classes([TITLES[x] for x in titles])
    # file names: the same NAME in more than one distinct path
    byname = {}
    for r, f in zip(rules, files):
        if FILES[f] is not None:
            byname.setdefault(Path(FILES[f]).name, []).append((id(r), FILES[f]))
    want_file = sorted(sorted(x for x, _ in v) for v in byname.values() if len({p for _, p in v}) > 1)
    return groups("IdentifierCollisionIssue") == want_id and groups("DuplicateTitleIssue") == want_title and groups("DuplicateFilenameIssue") == want_file


def c19b_unique(i0: int, i1: int, i2: int, i3: int, t0: bool, t1: bool, t2: bool, t3: bool, f0: int, f1: int, f2: int, f3: int) -> bool:
    """
    pre: 0 <= i0 < 4 and 0 <= i1 < 4 and 0 <= i2 < 4 and 0 <= i3 < 4
    pre: P("I0", -1) < 0 or i0 == P("I0", -1)
    pre: 0 <= f0 < 4 and 0 <= f1 < 4 and 0 <= f2 < 4 and 0 <= f3 < 4
    pre: P("MODE", 0) != 0 or (f0 == 3 and f1 == 3 and f2 == 3 and f3 == 3)
    pre: P("MODE", 0) != 1 or (i0 == 0 and i1 == 0 and i2 == 0 and i3 == 0 and not t0 and not t1 and not t2 and not t3)
    post: _
    """
    ids = [sel(i0, 4), sel(i1, 4), sel(i2, 4), sel(i3, 4)]
    titles = [1 if selb(t) else 0 for t in (t0, t1, t2, t3)]
    files = [sel(f0, 4), sel(f1, 4), sel(f2, 4), sel(f3, 4)]
    with concrete_section():
        ok = check_unique(ids, titles, files)
    return fin(ok)


# ---------------------------------------------------------------- c. purity, order independence, exclusions
DOCS = [
    {"title": "A", "id": IDS[1], "status": "test", "tags": ["attack.t1059", "attack.t1059"], "logsource": {"category": "process_creation", "product": "windows"},
     "detection": {"sel": {"Image|endswith": "*\\\\a.exe", "f": "1"}, "unused": {"g": "x**y"}, "condition": "sel"}},
    {"title": "A", "id": IDS[1], "logsource": {"category": "c"}, "detection": {"s1": {"f": "v"}, "s2": {"f": "w"}, "condition": "1 of zz* or all of them"}},
    {"title": "B", "id": IDS[2], "logsource": {"product": "windows", "service": "sysmon"}, "detection": {"sel": {"EventID": 1, "f|contains|startswith": "x"}, "condition": "1 of them"}},
    # same condition TEXT as the second rule, but here the selector matches
    {"title": "C", "id": IDS[3], "logsource": {"category": "c"}, "detection": {"zz1": {"f": "v"}, "s2": {"f": "w"}, "condition": "1 of zz* or all of them"}},
]
NDOCS = len(DOCS)


def issue_sig(i, rules):
    idx = {id(r): n for n, r in enumerate(rules)}
    return (type(i).__name__, tuple(sorted(idx.get(id(r), -1) for r in i.rules)), tuple(sorted((k, repr(v)) for k, v in i.__dict__.items() if k != "rules")))


def run_validators(rules, classes, order, exclusions):
    v = SigmaValidator(classes, exclusions)
    vs = sorted(v.validators, key=lambda x: type(x).__name__)
    if order == 1:
        vs = list(reversed(vs))
    elif order == 2:
        vs = vs[len(vs) // 2 :] + vs[: len(vs) // 2]
    elif order == 3:
        vs = vs[1::2] + vs[0::2]
    v.validators = vs  # stub: a concrete iteration order instead of the set's
    return v.validate_rules(iter(rules))


_CLASSES = None


def all_validator_classes():
    global _CLASSES
    if _CLASSES is None:
        # the ATT&CK / D3FEND tag validators download their data (no network here): outside
        _CLASSES = sorted((c for n, c in InstalledSigmaPlugins.autodiscover().validators.items() if n not in ("attacktag", "d3_fendtag")), key=lambda c: c.__name__)
    return _CLASSES


def check_pure(perm_i: int, order: int, converted: bool, excl: int) -> bool:
    classes = set(all_validator_classes())
    perm = list(itertools.permutations(range(NDOCS)))[perm_i]
    base_rules = [SigmaRule.from_dict(copy.deepcopy(d)) for d in DOCS]
    base_sigs = sorted(issue_sig(i, base_rules) for i in run_validators(base_rules, classes, 0, {}))
    # per-rule issues must not depend on the other rules: every rule validated on its own by fresh validators
    cross = ("IdentifierCollisionIssue", "DuplicateTitleIssue", "DuplicateFilenameIssue", "DuplicateReferencesIssue")
    alone = []
    for n, r in enumerate(base_rules):
        fresh = SigmaRule.from_dict(copy.deepcopy(DOCS[n]))
        for i in run_validators([fresh], classes, 0, {}):
            s = issue_sig(i, [fresh])
            alone.append((s[0], (n,), s[2]))
    if sorted(alone) != sorted(s for s in base_sigs if s[0] not in cross):
        return False
    rules = [SigmaRule.from_dict(copy.deepcopy(d)) for d in DOCS]
    before = [copy.deepcopy(r.to_dict()) for r in rules]
    qbefore = [TextQueryTestBackend().convert(SigmaCollection([SigmaRule.from_dict(copy.deepcopy(d))])) for d in DOCS]
    if converted:
        for r in rules:
            TextQueryTestBackend().convert_rule(r)
    # exclusion table: bit0 -> (rule id 1, DanglingDetection), bit1 -> (id 2, DuplicateTitle... not applicable), bit2 -> (id 1, IdentifierUniqueness)
    exclusions = {}
    excluded = []
    if excl & 1:
        exclusions.setdefault(UUID(IDS[1]), set()).add(DanglingDetectionValidator)
        excluded.append("DanglingDetectionIssue")
    if excl & 2:
        exclusions.setdefault(UUID(IDS[2]), set()).add(DanglingConditionValidator)
    if excl & 4:
        exclusions.setdefault(UUID(IDS[1]), set()).add(DanglingConditionValidator)
        excluded.append("DanglingConditionIssue")
    issues = run_validators([rules[i] for i in perm], classes, order, exclusions)
    sigs = sorted(issue_sig(i, rules) for i in issues)
    # expected: base issues minus those of excluded (rule id 1 = rules 0 and 1, validator) pairs
    want = [s for s in base_sigs if not (s[0] in excluded and set(s[1]) <= {0, 1})]
    if sigs != sorted(want):
        return False
    # purity
    if [r.to_dict() for r in rules] != before:
        return False
    qafter = [TextQueryTestBackend().convert(SigmaCollection([SigmaRule.from_dict(r.to_dict())])) for r in rules]
    return qafter == qbefore


def c19c_pure(perm_i: int, order: int, converted: bool, excl: int) -> bool:
    """
    pre: 0 <= perm_i < 24
    pre: 0 <= order < 4
    pre: 0 <= excl < 8
    post: _
    """
    p, o, c, e = sel(perm_i, 24), sel(order, 4), selb(converted), sel(excl, 8)
    with concrete_section():
        ok = check_pure(p, o, c, e)
    return fin(ok)


def check_reuse(perm_i: int, converted: bool, spell: int) -> bool:
    """One SigmaValidator object used for two validation runs (before / after conversion): both runs report the
    same issues; exclusions configured through from_dict under two spellings of one rule id are both in force."""
    from sigma.validators.base import SigmaRuleValidator  # noqa: F401

    names = InstalledSigmaPlugins.autodiscover().validators
    names = {n: c for n, c in names.items() if n not in ("attacktag", "d3_fendtag")}
    perm = list(itertools.permutations(range(NDOCS)))[perm_i]
    rules = [SigmaRule.from_dict(copy.deepcopy(d)) for d in DOCS]
    ordered = [rules[i] for i in perm]
    id1 = IDS[1]
    other = [id1.upper(), "{" + id1 + "}", "urn:uuid:" + id1, id1.replace("-", "")][spell]
    conf = {"validators": ["all"], "exclusions": {id1: "dangling_detection", other: ["dangling_condition"]}}
    v = SigmaValidator.from_dict(copy.deepcopy(conf), names)
    first = sorted(issue_sig(i, rules) for i in v.validate_rules(iter(ordered)))
    if converted:
        TextQueryTestBackend(collect_errors=True).convert(SigmaCollection([SigmaRule.from_dict(copy.deepcopy(d)) for d in DOCS]))
        for r in rules:
            try:
                TextQueryTestBackend().convert_rule(r)
            except SigmaError:
                pass
    second = sorted(issue_sig(i, rules) for i in v.validate_rules(iter(ordered)))
    if first != second:
        return False
    # reference: fresh validator object with the exclusions given directly
    classes = set(all_validator_classes())
    want = sorted(issue_sig(i, rules) for i in run_validators(ordered, classes, 0, {UUID(id1): {DanglingDetectionValidator, DanglingConditionValidator}}))
    return first == want


def c19c_reuse_concrete(perm_i: int, converted: bool, spell: int) -> bool:
    return check_reuse(perm_i, converted, spell)


def c19c_reuse(perm_i: int, converted: bool, spell: int) -> bool:
    """
    pre: 0 <= perm_i < 24
    pre: 0 <= spell < 4
    post: _
    """
    p, c, sp = sel(perm_i, 24), selb(converted), sel(spell, 4)
    with concrete_section():
        ok = check_reuse(p, c, sp)
    return fin(ok)


OBLIGATIONS = [
    Ob("c19c_reuse", {}, 600),
    Ob("c19a_refs", {"TWO": 0}, 600),
    Ob("c19a_refs", {"TWO": 2}, 900),
    Ob("c19a_refs", {"TWO": 1}, 3000, tier="thorough"),
] + [Ob("c19b_unique", {"MODE": 0, "I0": i}, 900) for i in range(4)] + [
    Ob("c19b_unique", {"MODE": 1}, 600),
    Ob("c19c_pure", {}, 900),
]

SELFCHECKS = [
    ("c19a_refs", {}, (0b000111, 0, -1), True),
    ("c19a_refs", {}, (0b001011, 1, -1), True),
    ("c19a_refs", {"TWO": 1}, (0b000011, 0, 6), True),
    ("c19c_pure", {}, (0, 0, False, 0), True),
]
