"""C13 - a pipeline item acts exactly where its conditions hold.

Engine E1 with *symbolic* condition outcomes: stub condition classes (registered in the condition
registries from the harness side) return CrossHair symbolic bools, so the real gate logic of
ProcessingItem (list / map form, default linking, and/or, negation, condition expressions, the
empty-conditions shortcut, field reference path) is executed symbolically and compared with the
documented formula for ALL outcomes of the conditions.
a. rule-level gate, b. detection-item + field-name gates, c. condition expressions (all three
levels), d. built-in conditions' own meaning with symbolic parameters, e. "applied so far":
processing_item_applied / processing_state observe exactly the items applied earlier to the same
rule / detection item / field.
"""
from dataclasses import dataclass

import sigma.processing.conditions as PC
from ref import condition as RC
from sigma.exceptions import SigmaError
from sigma.processing.conditions.base import DetectionItemProcessingCondition, FieldNameProcessingCondition, RuleProcessingCondition
from sigma.processing.pipeline import ProcessingItem, ProcessingPipeline
from sigma.rule import SigmaRule
from sigma.rule.detection import SigmaDetectionItem
from sigma.types import SigmaFieldReference
from vlib.known import is_open
from vlib.obl import Ob
from vlib.params import P, concrete_section, fin, sel, selb

PROPERTY = "C13"
TARGETS = [
    "sigma.processing.pipeline:ProcessingItemBase._check_conditions",
    "sigma.processing.pipeline:ProcessingItemBase.match_rule_conditions",
    "sigma.processing.pipeline:ProcessingItem.match_detection_item",
    "sigma.processing.pipeline:ProcessingItem.match_field_name",
    "sigma.processing.pipeline:ProcessingItem.match_field_in_value",
    "sigma.processing.pipeline:ProcessingItem.apply",
    "sigma.processing.condition_expressions:parse_condition_expression",
    "sigma.processing.condition_expressions:ConditionNOT",
    "sigma.processing.condition_expressions:BinaryConditionOp",
    "sigma.processing.condition_expressions:ConditionIdentifier",
    "sigma.processing.conditions.fields:IncludeFieldCondition.match_field_name",
    "sigma.processing.conditions.fields:ExcludeFieldCondition.match_field_name",
    "sigma.processing.conditions.state:ProcessingStateConditionBase",
    "sigma.processing.tracking:ProcessingItemTrackingMixin",
    "sigma.processing.pipeline:ProcessingPipeline.apply",
]
BOUNDS = {
    "gates": "0..2 conditions per group, outcomes symbolic; linking absent/and/or; negation on/off; list and map form",
    "expressions": "22 expressions over up to 3 condition identifiers (incl. identifiers starting with not/and/or), outcomes symbolic",
    "builtin conditions": "include/exclude fields (plain, regular expression) on a symbolic field name (len <= 3); match_string, contains_wildcard, is_null, logsource, tag, rule_attribute over selector values",
    "applied so far": "3 rule-level and 3 detection-item-level items whose stub conditions are symbolic",
    "outside": "more than 2 conditions per group in list form; expressions beyond the table; custom condition classes",
}
ASSUMPTIONS = [
    "stub condition classes 'stub' are registered in sigma.processing.conditions.{rule,detection_item,field_name}_conditions by the harness; their outcome is a symbolic bool looked up by name",
]

VALUES = {}


@dataclass
class StubRule(RuleProcessingCondition):
    name: str = ""

    def match(self, rule):
        return VALUES[self.name]


@dataclass
class StubItem(DetectionItemProcessingCondition):
    name: str = ""

    def match(self, detection_item):
        return VALUES[self.name]


@dataclass
class StubField(FieldNameProcessingCondition):
    name: str = ""

    def match_field_name(self, field):
        return VALUES[self.name + ":" + str(field)] if (self.name + ":" + str(field)) in VALUES else VALUES[self.name]


PC.rule_conditions["stub"] = StubRule
PC.detection_item_conditions["stub"] = StubItem
PC.field_name_conditions["stub"] = StubField

LINKS = [None, "and", "or"]


def formula(vals, link, neg):
    """Documented meaning: no conditions -> applies; else link (default and) of the outcomes, negated if requested."""
    if not vals:
        return True
    if link == "or":
        r = False
        for v in vals:
            r = r | v
    else:
        r = True
        for v in vals:
            r = r & v
    return (r ^ True) if neg else r


def item_dict(level, names, link, neg, form):
    d = {"id": "x", "type": "field_name_suffix", "suffix": "_s"}
    key = {"rule": "rule", "item": "detection_item", "field": "field_name"}[level]
    if names:
        if form == 1:
            d[key + "_conditions"] = {n: {"type": "stub", "name": n} for n in names}
        else:
            d[key + "_conditions"] = [{"type": "stub", "name": n} for n in names]
    if link is not None:
        d[key + "_cond_op"] = link
    if neg:
        d[key + "_cond_not"] = True
    return d


RULE = {"title": "t", "logsource": {"category": "c"}, "detection": {"sel": {"fA": "v", "fB|fieldref": "fC"}, "condition": "sel"}}


# ---------------------------------------------------------------- a. rule gate
def c13a_rule_gate(n: int, b1: bool, b2: bool, li: int, neg: bool, form: int) -> bool:
    """
    pre: 0 <= n <= 2
    pre: 0 <= li < 3
    pre: 0 <= form < 2
    post: _
    """
    nn = sel(n, 3)
    link = LINKS[sel(li, 3)]
    ng = selb(neg)
    ff = sel(form, 2)
    names = ["c1", "c2"][:nn]
    VALUES.clear()
    VALUES.update({"c1": b1, "c2": b2})
    with concrete_section():
        item = ProcessingItem.from_dict(item_dict("rule", names, link, ng, ff))
        rule = SigmaRule.from_dict(RULE)
    got = item.match_rule_conditions(rule)
    want = formula([b1, b2][:nn], link, ng)
    return fin(got == want)


# ---------------------------------------------------------------- b. detection item / field name gates
def c13b_item_gate(n: int, m: int, d1: bool, d2: bool, f1: bool, f2: bool, f1r: bool, f2r: bool, li: int, lf: int, negd: bool, negf: bool, form: int, which: int) -> bool:
    """
    pre: 0 <= n <= 2 and 0 <= m <= 2
    pre: 0 <= li < 3 and 0 <= lf < 3
    pre: 0 <= form < 2
    pre: P("WHICH", 0) <= which <= P("WHICH", 0)
    pre: n >= 2 or not d2
    pre: n >= 1 or not d1
    pre: m >= 2 or not (f2 or f2r)
    pre: m >= 1 or not (f1 or f1r)
    post: _
    """
    nn, mm = sel(n, 3), sel(m, 3)
    linkd, linkf = LINKS[sel(li, 3)], LINKS[sel(lf, 3)]
    nd, nf = selb(negd), selb(negf)
    ff = sel(form, 2)
    w = sel(which, 4)
    dn = ["d1", "d2"][:nn]
    fn = ["f1", "f2"][:mm]
    VALUES.clear()
    # field-name conditions: outcome on the item's own field and (f1r/f2r) on the referenced field
    VALUES.update({"d1": d1, "d2": d2, "f1": f1, "f2": f2, "f1:fC": f1r, "f2:fC": f2r, "f1:fB": f1, "f2:fB": f2, "f1:fA": f1, "f2:fA": f2})
    with concrete_section():
        d = item_dict("item", dn, linkd, nd, ff)
        d.update({k: v for k, v in item_dict("field", fn, linkf, nf, ff).items() if k.startswith("field_name")})
        item = ProcessingItem.from_dict(d)
        plain_item = SigmaDetectionItem.from_mapping("fA", "v")
        ref_item = SigmaDetectionItem.from_mapping("fB|fieldref", "fC")
    dvals = [d1, d2][:nn]
    if w == 0:  # item with a plain value: field-name conditions see the field only
        got = item.match_detection_item(plain_item)
        want = formula(dvals, linkd, nd) & formula([f1, f2][:mm], linkf, nf)
    elif w == 1:  # item with a field reference value: a field-name condition matches on the field OR on the referenced field
        got = item.match_detection_item(ref_item)
        want = formula(dvals, linkd, nd) & formula([f1 | f1r, f2 | f2r][:mm], linkf, nf)
    elif w == 2:  # bare field name (fields list, correlation fields)
        got = item.match_field_name("fA")
        want = formula([f1, f2][:mm], linkf, nf)
    else:  # a field reference value on its own
        got = item.match_field_in_value(SigmaFieldReference("fC"))
        want = formula([f1r, f2r][:mm], linkf, nf)
    return fin(got == want)


# ---------------------------------------------------------------- c. condition expressions
EXPRS = [
    ("c1", ["c1"]), ("not c1", ["c1"]), ("c1 and c2", ["c1", "c2"]), ("c1 or c2", ["c1", "c2"]), ("c1 and not c2", ["c1", "c2"]),
    ("not c1 or c2", ["c1", "c2"]), ("not (c1 or c2)", ["c1", "c2"]), ("c1 or c2 and c3", ["c1", "c2", "c3"]), ("(c1 or c2) and c3", ["c1", "c2", "c3"]),
    ("c1 and c2 or c3", ["c1", "c2", "c3"]), ("not c1 and not c2 or c3", ["c1", "c2", "c3"]), ("c1 and (c2 or not c3)", ["c1", "c2", "c3"]),
    ("not not c1", ["c1"]), ("c1 or c2 or c3", ["c1", "c2", "c3"]), ("c1 and c2 and c3", ["c1", "c2", "c3"]), ("not (c1 and c2) or not c3", ["c1", "c2", "c3"]),
    ("nota", ["nota"]), ("nota and or_1", ["nota", "or_1"]), ("not andy", ["andy"]), ("c1 or oracle", ["c1", "oracle"]), ("not-x and c1", ["not-x", "c1"]), ("c1 and and-1", ["c1", "and-1"]),
]


def c13c_expr(ei: int, level: int, v1: bool, v2: bool, v3: bool, r1: bool, r2: bool, r3: bool) -> bool:
    """
    pre: P("ELO", 0) <= ei < min(len(EXPRS), P("EHI", 99))
    pre: 0 <= level < 4
    post: _
    """
    expr, names = EXPRS[sel(ei, len(EXPRS))]
    lv = sel(level, 4)
    vals = dict(zip(names, [v1, v2, v3]))
    refvals = dict(zip(names, [r1, r2, r3]))
    VALUES.clear()
    VALUES.update(vals)
    for n in names:
        VALUES[n + ":fC"] = refvals[n]
    key = ["rule", "detection_item", "field_name", "field_name"][lv]
    with concrete_section():
        d = {"id": "x", "type": "field_name_suffix", "suffix": "_s", key + "_conditions": {n: {"type": "stub", "name": n} for n in names}, key + "_cond_expr": expr}
        item = ProcessingItem.from_dict(d)
        want_f = RC.parse(expr, names)
        rule0 = SigmaRule.from_dict(RULE)
        di_plain = SigmaDetectionItem.from_mapping("fA", "v")
        di_ref = SigmaDetectionItem.from_mapping("fB|fieldref", "fC")
    if lv == 0:
        got = item.match_rule_conditions(rule0)
        want = RC.ev(want_f, vals)
    elif lv == 1:
        got = item.match_detection_item(di_plain)
        want = RC.ev(want_f, vals)
    elif lv == 2:
        got = item.match_field_name("fA")
        want = RC.ev(want_f, vals)
    else:  # detection item with a field reference: each identifier stands for "matches field or referenced field"
        got = item.match_detection_item(di_ref)
        want = RC.ev(want_f, {n: vals[n] | refvals[n] for n in names})
    return fin(got == want)


# ---------------------------------------------------------------- d. built-in conditions
def c13d_fields(field: str, mode: int, excl: bool) -> bool:
    """
    pre: len(field) <= P("LEN", 3)
    pre: 0 <= mode < 2
    post: _
    """
    from sigma.processing.conditions.fields import ExcludeFieldCondition, IncludeFieldCondition

    mm = sel(mode, 2)
    cls = ExcludeFieldCondition if excl else IncludeFieldCondition
    if mm == 0:
        c = cls(fields=["ab", "c", "a.c"])
        want = field == "ab" or field == "c" or field == "a.c"
    else:
        c = cls(fields=["ab", "a.c"], mode="re")  # documented: regular expression match from the beginning of the field name
        want = field.startswith("ab") or (len(field) >= 3 and field[0] == "a" and field[1] != "\n" and field[2] == "c")
    got = c.match_field_name(field)
    if excl:
        want = not want
    return fin(got == want and c.match_field_name(None) == (True if excl else False))


MATCH_VALUES = ["abc", "a*c", "", "xyz", "ab"]


def c13d_values(vi: int, vj: int, two: bool, cond_all: bool, neg: bool, kind: int) -> bool:
    """
    pre: 0 <= vi < len(MATCH_VALUES) and 0 <= vj < len(MATCH_VALUES)
    pre: 0 <= kind < 3
    post: _
    """
    from sigma.processing.conditions.values import ContainsWildcardCondition, IsNullCondition, MatchStringCondition

    a = MATCH_VALUES[sel(vi, len(MATCH_VALUES))]
    b = MATCH_VALUES[sel(vj, len(MATCH_VALUES))]
    tw, ca, ng, kk = selb(two), selb(cond_all), selb(neg), sel(kind, 3)
    with concrete_section():
        import re

        vals = [a, b] if tw else [a]
        item = SigmaDetectionItem.from_mapping("f", vals if kk != 2 else [None if v == "" else v for v in vals])
        cond = "all" if ca else "any"
        agg = all if ca else any
        if kk == 0:
            c = MatchStringCondition(cond=cond, pattern="^ab", negate=ng)
            want = agg([(re.match("^ab", v) is not None) != ng for v in vals])
        elif kk == 1:
            c = ContainsWildcardCondition(cond=cond)
            want = agg(["*" in v for v in vals])
        else:
            c = IsNullCondition(cond=cond)
            want = agg([v == "" for v in vals])
        ok = c.match(item) == want
    return fin(ok)


RULE_SHAPES = [
    {"sel": {"fX": "v"}},  # 0 field directly in a map detection
    {"sel": [{"fY": "w"}, {"fX": "v"}]},  # 1 in a list of maps
    {"sel": {"fY": "w"}, "other": {"fX": "v"}},  # 2 in a second detection
    {"sel": {"fY": "w"}, "other": [{"fZ": 1}, {"fY": "u", "fX": ["a", "v"]}]},  # 3 nested, value inside a list
    {"sel": {"fY": "w"}},  # 4 absent
    {"sel": ["v", "k"]},  # 5 keywords only
    {"sel": {"fX": "other"}},  # 6 field present with another value
    {"sel": {"fX|contains": "v"}},  # 7 modified value
]


def c13d_rule_conds(shape: int, kind: int, cat: int, prod: int, rc: int, rp: int) -> bool:
    """
    pre: 0 <= shape < len(RULE_SHAPES)
    pre: 0 <= kind < 5
    pre: 0 <= cat < 3 and 0 <= prod < 3 and 0 <= rc < 3 and 0 <= rp < 3
    post: _
    """
    from sigma.processing.conditions.rule import (
        IsSigmaRuleCondition,
        LogsourceCondition,
        RuleAttributeCondition,
        RuleContainsDetectionItemCondition,
        RuleContainsFieldCondition,
        RuleTagCondition,
    )

    sh, kk = sel(shape, len(RULE_SHAPES)), sel(kind, 5)
    names = [None, "a", "b"]
    c_cat, c_prod, r_cat, r_prod = names[sel(cat, 3)], names[sel(prod, 3)], names[sel(rc, 3)], names[sel(rp, 3)]
    with concrete_section():
        ls = {k: v for k, v in (("category", r_cat), ("product", r_prod)) if v is not None} or {"service": "s"}
        doc = {"title": "t", "level": "high", "tags": ["attack.t1000", "x.y"], "logsource": ls, "detection": dict(RULE_SHAPES[sh], condition="sel")}
        rule = SigmaRule.from_dict(doc)
        if kk == 0:
            got = RuleContainsFieldCondition("fX").match(rule)
            want = sh in (0, 1, 2, 3, 6, 7)
        elif kk == 1:
            got = RuleContainsDetectionItemCondition("fX", "v").match(rule)
            want = sh in (0, 1, 2, 3)
        elif kk == 2:
            if c_cat is None and c_prod is None:
                return True
            got = LogsourceCondition(category=c_cat, product=c_prod).match(rule)
            want = (c_cat is None or c_cat == r_cat) and (c_prod is None or c_prod == r_prod)
        elif kk == 3:
            got = RuleTagCondition("attack.t1000").match(rule) and not RuleTagCondition("attack.t1001").match(rule) and IsSigmaRuleCondition().match(rule)
            want = True
        else:
            got = (
                RuleAttributeCondition("level", "high").match(rule)
                and RuleAttributeCondition("level", "medium", "gt").match(rule)
                and not RuleAttributeCondition("level", "critical", "gte").match(rule)
                and RuleAttributeCondition("title", "t").match(rule)
                and not RuleAttributeCondition("title", "u").match(rule)
            )
            want = True
        ok = got == want
    return fin(ok)


def c13d_rule_attribute_num(av: int, isfloat: bool, op: int, cv: int) -> bool:
    """
    pre: 0 <= av < 5 and 0 <= cv < 5
    pre: 0 <= op < 6
    post: _
    """
    # numeric (custom) rule attribute against every comparison operator and value
    from sigma.processing.conditions.rule import RuleAttributeCondition

    import operator as O

    a, c, o, fl = sel(av, 5), sel(cv, 5), sel(op, 6), selb(isfloat)
    vals = [-1, 0, 3, 5, 10]
    with concrete_section():
        name, fn = [("eq", O.eq), ("ne", O.ne), ("lt", O.lt), ("lte", O.le), ("gt", O.gt), ("gte", O.ge)][o]
        rule = SigmaRule.from_dict({"title": "t", "score": float(vals[a]) if fl else vals[a], "logsource": {"category": "c"}, "detection": {"sel": {"f": "v"}, "condition": "sel"}})
        got = RuleAttributeCondition("score", vals[c], name).match(rule)
        got2 = RuleAttributeCondition("score", str(vals[c]), name).match(rule)
        want = fn(vals[a], vals[c])
        ok = got == want and got2 == want
    return fin(ok)


# ---------------------------------------------------------------- e. applied so far
def c13e_applied(b1: bool, b2: bool, bd: bool, st: bool) -> bool:
    """
    post: _
    """
    VALUES.clear()
    VALUES.update({"r1": b1, "r2": b2, "dA": bd, "s": st})
    d = {
        "name": "p",
        "priority": 1,
        "transformations": [
            {"id": "i1", "type": "set_custom_attribute", "attribute": "a1", "value": "1", "rule_conditions": [{"type": "stub", "name": "r1"}]},
            {"id": "i2", "type": "set_custom_attribute", "attribute": "a2", "value": "1", "rule_conditions": [{"type": "stub", "name": "r2"}, {"type": "processing_item_applied", "processing_item_id": "i1"}]},
            {"id": "i3", "type": "set_custom_attribute", "attribute": "a3", "value": "1", "rule_conditions": [{"type": "processing_item_applied", "processing_item_id": "i2"}], "rule_cond_not": True},
            {"id": "s1", "type": "set_state", "key": "k", "val": "on", "rule_conditions": [{"type": "stub", "name": "s"}]},
            {"id": "i4", "type": "set_custom_attribute", "attribute": "a4", "value": "1", "rule_conditions": [{"type": "processing_state", "key": "k", "val": "on"}]},
            # detection item level: d1 applies to fA only if dA holds; d2 only where d1 was applied; d3 where d1 was NOT applied
            {"id": "d1", "type": "field_name_suffix", "suffix": "_1", "field_name_conditions": [{"type": "include_fields", "fields": ["fA"]}], "detection_item_conditions": [{"type": "stub", "name": "dA"}]},
            {"id": "d2", "type": "field_name_suffix", "suffix": "_2", "detection_item_conditions": [{"type": "processing_item_applied", "processing_item_id": "d1"}]},
            {"id": "d3", "type": "field_name_suffix", "suffix": "_3", "detection_item_conditions": [{"type": "processing_item_applied", "processing_item_id": "d1"}], "detection_item_cond_not": True},
            {"id": "d4", "type": "field_name_suffix", "suffix": "_4", "field_name_conditions": [{"type": "processing_item_applied", "processing_item_id": "d2"}]},
        ],
    }
    p = ProcessingPipeline.from_dict(d)
    rule = SigmaRule.from_dict({"title": "t", "logsource": {"category": "c"}, "detection": {"sel": {"fA": "v", "fB": "w"}, "condition": "sel"}})
    p.apply(rule)
    ca = rule.custom_attributes
    fields = [i.field for i in rule.detection.detections["sel"].detection_items]
    ok = True
    ok = ok & (("a1" in ca) == b1)
    ok = ok & (("a2" in ca) == (b1 & b2))
    ok = ok & (("a3" in ca) == ((b1 & b2) ^ True))
    ok = ok & (("a4" in ca) == st)
    want_a = "fA" + ("_1_2" if bd else "_3") + ("_4" if bd else "")
    want_b = "fB_3"
    applied = ("i1" in p.applied_ids) == b1 and ("d1" in p.applied_ids)
    return fin(ok & (fields[0] == want_a) & (fields[1] == want_b) & applied)


def c13e_nested_state(bo: bool, bn: bool, bi: bool) -> bool:
    """
    post: _
    """
    # pipeline state across a nested pipeline: the nested items see the state set before the nest item, and what
    # they set (also when they overwrite a key) is what the items after the nest item see
    VALUES.clear()
    VALUES.update({"o": bo, "n": bn, "i": bi})
    d = {
        "name": "p",
        "priority": 1,
        "transformations": [
            {"id": "s0", "type": "set_state", "key": "k", "val": "outer", "rule_conditions": [{"type": "stub", "name": "o"}]},
            {"id": "n", "type": "nest", "rule_conditions": [{"type": "stub", "name": "n"}], "items": [
                {"id": "seen", "type": "set_custom_attribute", "attribute": "a_seen", "value": "1", "rule_conditions": [{"type": "processing_state", "key": "k", "val": "outer"}]},
                {"id": "s1", "type": "set_state", "key": "k", "val": "inner", "rule_conditions": [{"type": "stub", "name": "i"}]},
                {"id": "s2", "type": "set_state", "key": "k2", "val": "x"},
            ]},
            {"id": "g1", "type": "set_custom_attribute", "attribute": "a_in", "value": "1", "rule_conditions": [{"type": "processing_state", "key": "k", "val": "inner"}]},
            {"id": "g2", "type": "set_custom_attribute", "attribute": "a_out", "value": "1", "rule_conditions": [{"type": "processing_state", "key": "k", "val": "outer"}]},
            {"id": "g3", "type": "set_custom_attribute", "attribute": "a_k2", "value": "1", "rule_conditions": [{"type": "processing_state", "key": "k2", "val": "x"}]},
        ],
    }
    p = ProcessingPipeline.from_dict(d)
    rule = SigmaRule.from_dict({"title": "t", "logsource": {"category": "c"}, "detection": {"sel": {"fA": "v"}, "condition": "sel"}})
    p.apply(rule)
    ca = rule.custom_attributes
    inner = bn & bi
    ok = True
    if not is_open("c13-nested-pipeline-does-not-see-outer-state"):
        ok = ("a_seen" in ca) == (bn & bo)
    ok = ok & (("a_in" in ca) == inner)
    ok = ok & (("a_out" in ca) == (bo & (inner ^ True)))
    ok = ok & (("a_k2" in ca) == bn)
    return fin(ok)


def c13_strict_nested_sees_outer_state() -> bool:
    """Witness form for known finding c13-nested-pipeline-does-not-see-outer-state."""
    VALUES.clear()
    VALUES.update({"o": True, "n": True, "i": False})
    d = {"name": "p", "priority": 1, "transformations": [
        {"id": "s0", "type": "set_state", "key": "k", "val": "outer"},
        {"id": "m0", "type": "field_name_suffix", "suffix": "_x"},
        {"id": "n", "type": "nest", "items": [
            {"id": "seen", "type": "set_custom_attribute", "attribute": "a_seen", "value": "1", "rule_conditions": [{"type": "processing_state", "key": "k", "val": "outer"}]},
            {"id": "seen2", "type": "set_custom_attribute", "attribute": "a_seen2", "value": "1", "rule_conditions": [{"type": "processing_item_applied", "processing_item_id": "m0"}]},
        ]},
    ]}
    p = ProcessingPipeline.from_dict(d)
    rule = SigmaRule.from_dict({"title": "t", "logsource": {"category": "c"}, "detection": {"sel": {"fA": "v"}, "condition": "sel"}})
    p.apply(rule)
    return "a_seen" in rule.custom_attributes and "a_seen2" in rule.custom_attributes


# applied-so-far bookkeeping for field names across the kinds of field mappings: an item gated by the field name
# condition processing_item_applied applies to exactly the fields the earlier mapping produced
MAPKINDS = [
    ("1:1", {"type": "field_name_mapping", "mapping": {"fA": "mA"}}, {"fA": ["mA"]}),
    ("1:n", {"type": "field_name_mapping", "mapping": {"fA": ["m1", "m2"]}}, {"fA": ["m1", "m2"]}),
    ("prefix", {"type": "field_name_prefix_mapping", "mapping": {"fA": "pA"}}, {"fA": ["pA"], "fAx": ["pAx"]}),
    ("prefix 1:n", {"type": "field_name_prefix_mapping", "mapping": {"fA": ["p1", "p2"]}}, {"fA": ["p1", "p2"], "fAx": ["p1x", "p2x"]}),
    ("suffix", {"type": "field_name_suffix", "suffix": "_m", "field_name_conditions": [{"type": "include_fields", "fields": ["fA"]}]}, {"fA": ["fA_m"]}),
]
MAPSHAPES = [{"fA": "v"}, {"fA": "v", "fB": "w"}, {"fB": "w"}, {"fAx": "v", "fA": ["v", "u"]}, [{"fA": "v"}, {"fB": "w"}], {"fA|contains|all": ["v", "u"], "fB": "w"}]


def fields_in(detection):
    out = []
    for it in detection.detection_items:
        if hasattr(it, "detection_items"):
            out.extend(fields_in(it))
        else:
            out.append(it.field)
            out.extend(v.field for v in it.value if isinstance(v, SigmaFieldReference))
    return out


def c13e_applied_mapping(kind: int, shape: int, negate: bool) -> bool:
    """
    pre: 0 <= kind < len(MAPKINDS)
    pre: 0 <= shape < len(MAPSHAPES)
    post: _
    """
    k, sh, ng = sel(kind, len(MAPKINDS)), sel(shape, len(MAPSHAPES)), selb(negate)
    with concrete_section():
        import copy

        _, trans, table = MAPKINDS[k]
        gate = {"id": "g", "type": "field_name_suffix", "suffix": "_s", "field_name_conditions": [{"type": "processing_item_applied", "processing_item_id": "m"}]}
        if ng:
            gate["field_name_cond_not"] = True
        p = ProcessingPipeline.from_dict({"name": "p", "priority": 1, "transformations": [dict(copy.deepcopy(trans), id="m"), gate]})
        rule = SigmaRule.from_dict({"title": "t", "logsource": {"category": "c"}, "detection": {"sel": copy.deepcopy(MAPSHAPES[sh]), "condition": "sel"}})
        p.apply(rule)
        got = sorted(fields_in(rule.detection.detections["sel"]))
        src = []
        for m in MAPSHAPES[sh] if isinstance(MAPSHAPES[sh], list) else [MAPSHAPES[sh]]:
            for key, val in m.items():
                f, *mods = key.split("|")
                src.append(f)
                if "fieldref" in mods:
                    src.append(val)
        want = []
        for f in src:
            mapped = table.get(f)
            if mapped is not None:
                want.extend(x + ("" if ng else "_s") for x in mapped)
            else:
                want.append(f + ("_s" if ng else ""))
        ok = got == sorted(want)
    return fin(ok)


# second rule through the same pipeline must not see the first rule's bookkeeping
def c13e_reset(b1: bool, c1: bool) -> bool:
    """
    post: _
    """
    VALUES.clear()
    d = {
        "name": "p",
        "priority": 1,
        "transformations": [
            {"id": "s1", "type": "set_state", "key": "k", "val": "on", "rule_conditions": [{"type": "stub", "name": "r"}]},
            {"id": "i1", "type": "set_custom_attribute", "attribute": "a1", "value": "1", "rule_conditions": [{"type": "stub", "name": "r"}]},
            {"id": "i2", "type": "set_custom_attribute", "attribute": "a2", "value": "1", "rule_conditions": [{"type": "processing_item_applied", "processing_item_id": "i1"}]},
            {"id": "i3", "type": "set_custom_attribute", "attribute": "a3", "value": "1", "rule_conditions": [{"type": "processing_state", "key": "k", "val": "on"}]},
        ],
    }
    p = ProcessingPipeline.from_dict(d)
    doc = {"title": "t", "logsource": {"category": "c"}, "detection": {"sel": {"fA": "v"}, "condition": "sel"}}
    r1, r2 = SigmaRule.from_dict(doc), SigmaRule.from_dict(doc)
    VALUES["r"] = b1
    p.apply(r1)
    VALUES["r"] = c1
    p.apply(r2)
    ca = r2.custom_attributes
    return fin((("a1" in ca) == c1) & (("a2" in ca) == c1) & (("a3" in ca) == c1))


OBLIGATIONS = [
    Ob("c13a_rule_gate", {}, 300),
] + [Ob("c13b_item_gate", {"WHICH": w}, 900) for w in range(4)] + [Ob("c13c_expr", {"ELO": lo, "EHI": lo + 6}, 900) for lo in range(0, len(EXPRS), 6)] + [
    Ob("c13d_fields", {"LEN": 3}, 600),
    Ob("c13d_fields", {"LEN": 8}, 3000, tier="thorough"),
    Ob("c13d_values", {}, 300),
    Ob("c13d_rule_conds", {}, 600),
    Ob("c13d_rule_attribute_num", {}, 300),
    Ob("c13e_applied", {}, 300),
    Ob("c13e_applied_mapping", {}, 300),
    Ob("c13e_nested_state", {}, 300),
    Ob("c13e_reset", {}, 120),
]

SELFCHECKS = [
    ("c13a_rule_gate", {}, (2, True, False, 2, False, 0), True),
    ("c13c_expr", {}, (7, 0, False, True, False, False, False, False), True),
    ("c13e_applied", {}, (True, True, True, True), True),
]
