"""C07 - malformed documents raise Sigma errors only; collecting mode never raises.

Engine E1.  A mutation of a valid base document is a tuple of symbolic selectors
(path index, operation, replacement kind); on each explored path the mutated document is
concrete and is loaded through the real from_dict / from_dicts in strict and in collecting mode.
Scalar parsers (id, dates, status, level, timespan, ...) are additionally fed a symbolic `str`.
Oracle: strict mode raises nothing but SigmaError; collecting mode raises nothing; errors != []
iff strict raises; errors[0] == the exception strict mode raises.
"""
import copy
import datetime

from sigma.collection import SigmaCollection
from sigma.correlations import SigmaCorrelationRule
from sigma.exceptions import SigmaError
from sigma.filters import SigmaFilter
from sigma.rule import SigmaRule
from vlib.known import excluded
from vlib.obl import Ob
from vlib.params import P, concrete_section, fin

PROPERTY = "C07"
TARGETS = [
    "sigma.rule.base:SigmaRuleBase.from_dict_common_params",
    "sigma.rule.rule:SigmaRule.from_dict",
    "sigma.rule.detection:SigmaDetections.from_dict",
    "sigma.rule.detection:SigmaDetection.from_definition",
    "sigma.rule.detection:SigmaDetectionItem.from_mapping",
    "sigma.rule.logsource:SigmaLogSource.from_dict",
    "sigma.correlations:SigmaCorrelationRule.from_dict",
    "sigma.correlations:SigmaCorrelationCondition.from_dict",
    "sigma.correlations:SigmaCorrelationTimespan.__post_init__",
    "sigma.filters:SigmaFilter.from_dict",
    "sigma.filters:SigmaGlobalFilter.from_dict",
    "sigma.collection:SigmaCollection.from_dicts",
    "sigma.exceptions:SigmaError.__eq__",
]
BOUNDS = {
    "mutations": "one mutation per document: every key path of the 4 base documents x {delete, replace by one of 20 replacement values of every YAML type (incl. infinity, a numeric text that overflows to infinity, a 400-digit integer)}; thorough adds pairs of mutations on the rule document",
    "scalars": "symbolic str len <= 3 (quick) / 4 (thorough) in id, date, modified, status, level, timespan, name, title, correlation type, condition operator count",
    "outside": "arbitrarily nested YAML; more than two simultaneous faults; YAML text level (documents are dicts, as produced by a YAML loader)",
}
ASSUMPTIONS = ["documents are Python dict/list/scalar structures as a YAML loader produces them (incl. date objects)"]

RULE = {
    "title": "T",
    "id": "9a6cafa7-1481-4e64-89a1-1f69ed08618c",
    "name": "rule_a",
    "status": "test",
    "description": "d",
    "references": ["https://x"],
    "author": "a",
    "date": "2024-01-02",
    "modified": "2024/1/3",
    "tags": ["attack.t1059"],
    "related": [{"id": "08fbc97d-0a2f-491c-ae21-8ffcfd3174e9", "type": "derived"}],
    "logsource": {"category": "process_creation", "product": "windows"},
    "detection": {"sel": {"Image|endswith": "\\a.exe", "User": ["x", 1]}, "kw": ["k1", "k2"], "lst": [{"a": 1}, {"b": None}], "condition": "sel and not 1 of kw*"},
    "fields": ["f"],
    "falsepositives": ["fp"],
    "level": "high",
    "scope": ["s"],
    "custom": {"k": 1},
}
CORR = {
    "title": "C",
    "id": "0e95725d-7320-415d-80f7-004da920fc11",
    "name": "corr_a",
    "status": "test",
    "correlation": {
        "type": "value_count",
        "rules": ["rule_a", "rule_b"],
        "group-by": ["user"],
        "timespan": "5m",
        "aliases": {"user": {"rule_a": "User", "rule_b": "Account"}},
        "condition": {"gte": 3, "field": "ip"},
        "generate": True,
    },
    "level": "low",
}
FILT = {
    "title": "F",
    "id": "11111111-1481-4e64-89a1-1f69ed08618c",
    "logsource": {"category": "process_creation", "product": "windows"},
    "filter": {"rules": ["9a6cafa7-1481-4e64-89a1-1f69ed08618c"], "selection": {"User|startswith": "adm_"}, "condition": "not selection"},
}
COLL = [
    {"action": "global", "logsource": {"product": "windows"}, "level": "low"},
    {"title": "A", "name": "rule_a", "logsource": {"category": "x"}, "detection": {"sel": {"a": 1}, "condition": "sel"}},
    {"action": "repeat", "title": "B", "name": "rule_b", "detection": {"sel": {"b": 2}, "condition": "sel"}},
    {"title": "C", "correlation": {"type": "event_count", "rules": ["rule_a"], "group-by": ["u"], "timespan": "1h", "condition": {"gt": 1}}},
]
RULE2 = {k: v for k, v in RULE.items() if k != "logsource"}  # one structural fault already present
# a collection in which the filter is applied to a rule with matching log source while it is loaded
COLL2 = [
    {"title": "T", "id": RULE["id"], "logsource": dict(RULE["logsource"]), "detection": {"sel": {"a": 1}, "condition": "sel"}},
    FILT,
    {"title": "G", "logsource": dict(RULE["logsource"]), "filter": {"rules": "any", "selection": {"b": 2}, "condition": "selection"}},
]
BASES = [("rule", RULE), ("corr", CORR), ("filter", FILT), ("coll", COLL), ("rule", RULE2), ("coll", COLL2)]

REPL = [None, True, 0, -1, 1.5, "", "x", "not a thing", [], ["x"], [None], [["x"]], {}, {"k": "v"}, {1: 2}, [{"k": "v"}], datetime.date(2024, 1, 1), float("inf"), "1e999", 10**400]


def paths_of(doc, prefix=()):
    out = []
    if isinstance(doc, dict):
        for k, v in doc.items():
            out.append(prefix + (k,))
            out.extend(paths_of(v, prefix + (k,)))
    elif isinstance(doc, list):
        for i, v in enumerate(doc):
            out.append(prefix + (i,))
            out.extend(paths_of(v, prefix + (i,)))
    return out


PATHS = [paths_of(b) for _, b in BASES]


def mutate(doc, path, op, repl):
    d = copy.deepcopy(doc)
    cur = d
    for k in path[:-1]:
        cur = cur[k]
    if op == 0:
        if isinstance(cur, list):
            del cur[path[-1]]
        else:
            del cur[path[-1]]
    elif op == 1:
        cur[path[-1]] = copy.deepcopy(repl)
    else:  # key replaced by a non-string key (dicts only)
        if isinstance(cur, dict):
            cur[repl if isinstance(repl, (int, float, bool, type(None))) else 7] = cur.pop(path[-1])
        else:
            cur[path[-1]] = copy.deepcopy(repl)
    return d


def loader(kind):
    if kind == "rule":
        return lambda d, c: SigmaRule.from_dict(d, collect_errors=c)
    if kind == "corr":
        return lambda d, c: SigmaCorrelationRule.from_dict(d, collect_errors=c)
    if kind == "filter":
        return lambda d, c: SigmaFilter.from_dict(d, collect_errors=c)
    return lambda d, c: SigmaCollection.from_dicts(d, collect_errors=c)


def verdict(kind, doc):
    """-> (ok, detail)"""
    load = loader(kind)
    strict_exc = None
    try:
        load(copy.deepcopy(doc), False)
    except SigmaError as e:
        strict_exc = e
    except Exception as e:
        return False, f"strict mode raised {type(e).__name__}: {e}"
    try:
        obj = load(copy.deepcopy(doc), True)
    except Exception as e:
        return False, f"collecting mode raised {type(e).__name__}: {e}"
    errs = list(obj.errors)
    if (len(errs) > 0) != (strict_exc is not None):
        return False, f"errors={errs!r} but strict raised {strict_exc!r}"
    if errs:
        try:
            same = errs[0] == strict_exc
        except Exception as e:
            return False, f"comparison raised {e!r}"
        if not same:
            return False, f"first collected {errs[0]!r} != raised {strict_exc!r}"
    return True, ""


# Known findings are identified by failure *signature* (document kind + failing call site as shown
# by the exception type/message), see /verif/known_findings.json; any other failure is reported.
import re as _re

KNOWN_SIGS = [
    ("c07-correlation-collecting-raises", ("corr", "coll"), r"collecting mode raised (SigmaCorrelation\w*Error|SigmaTimespanError|UnboundLocalError: cannot access local variable 'condition')"),
    ("c07-collection-collecting-missing-reference", ("coll",), r"collecting mode raised SigmaRuleNotFoundError"),
    ("c07-collection-global-merge-non-map", ("coll",), r"(strict|collecting) mode raised TypeError: ('\w+(\.\w+)?' object does not support item assignment|list indices must be integers or slices, not str)"),
    ("c07-unhashable-name-or-type", ("corr", "coll"), r"collecting mode raised TypeError: unhashable type"),
    ("c07-rule-reference-not-a-string", ("coll",), r"strict mode raised AttributeError: 'NoneType' object has no attribute 'add_backreference'"),
    ("c07-collection-detection-non-map-collecting", ("coll",), r"collecting mode raised AttributeError: '\w+(\.\w+)?' object has no attribute 'get'"),
]


def kf_known(kind, detail) -> bool:
    from vlib.known import is_open

    for key, kinds, rx in KNOWN_SIGS:
        if kind in kinds and is_open(key) and _re.match(rx, detail):
            return True
    return False


def c07_mutation(pi: int, op: int, ri: int) -> bool:
    """
    pre: 0 <= pi < len(PATHS[P("BASE", 0)])
    pre: 0 <= op < 3
    pre: 0 <= ri < len(REPL)
    post: _
    """
    b = P("BASE", 0)
    kind, base = BASES[b]
    paths = PATHS[b]
    path = paths[0]
    for j in range(len(paths)):
        if pi == j:
            path = paths[j]
    oo = 0
    for j in range(3):
        if op == j:
            oo = j
    rr = 0
    for j in range(len(REPL)):
        if ri == j:
            rr = j
    if oo == 0 and rr != 0:
        return True
    with concrete_section():
        doc = mutate(base, path, oo, REPL[rr])
        ok, detail = verdict(kind, doc)
        if not ok and kf_known(kind, detail):
            ok = True
    return fin(ok)


def c07_mutation_pair(p1: int, r1: int, p2: int, r2: int) -> bool:
    """
    pre: 0 <= p1 < p2 < len(PATHS[P("BASE", 0)])
    pre: 0 <= r1 <= len(REPL) and 0 <= r2 <= len(REPL)
    post: _
    """
    b = P("BASE", 0)
    kind, base = BASES[b]
    paths = PATHS[b]
    pa = pb = paths[0]
    for j in range(len(paths)):
        if p1 == j:
            pa = paths[j]
        if p2 == j:
            pb = paths[j]
    ra = rb = 0
    for j in range(len(REPL) + 1):
        if r1 == j:
            ra = j
        if r2 == j:
            rb = j
    if pb[: len(pa)] == pa:
        return True  # nested paths: second mutation would address a replaced subtree
    with concrete_section():
        doc = mutate(base, pb, 0 if rb == len(REPL) else 1, None if rb == len(REPL) else REPL[rb])
        doc = mutate(doc, pa, 0 if ra == len(REPL) else 1, None if ra == len(REPL) else REPL[ra])
        ok, detail = verdict(kind, doc)
        if not ok and kf_known(kind, detail):
            ok = True
    return fin(ok)


# ---------------------------------------------------------------- several faulty documents in one collection
LS = {"category": "process_creation", "product": "windows"}
DOCPOOL = [
    {"title": "A", "name": "rule_a", "logsource": LS, "detection": {"sel": {"a": 1}, "condition": "sel"}},
    {"title": "B", "name": "rule_b", "logsource": LS, "detection": {"sel": {"b": 2}, "condition": "sel"}},
    {"title": "noLS", "detection": {"sel": {"a": 1}, "condition": "sel"}},  # rule-level error
    {"title": "badstatus", "status": "bogus", "level": "bogus", "logsource": LS, "detection": {"sel": {"a": 1}, "condition": "sel"}},  # two rule-level errors
    "x",  # collection-level error: document is no map
    {"action": "bogus"},  # collection-level error: unknown action
    {"title": "F", "logsource": LS, "filter": {"rules": "any", "selection": {"c": 3}, "condition": "not selection"}},
    {"title": "brokenF", "logsource": LS, "filter": {"rules": "any", "selection": {"c": 3}}},  # filter without condition
    {"title": "C", "correlation": {"type": "event_count", "rules": ["rule_a"], "group-by": ["u"], "timespan": "1h", "condition": {"gt": 1}}},
    {"title": "badC", "correlation": {"type": "bogus", "rules": ["rule_a"], "timespan": "1h", "condition": {"gt": 1}}},
]


def c07_collection_order(n: int, k0: int, k1: int, k2: int) -> bool:
    """
    pre: 1 <= n <= 3
    pre: 0 <= k0 < len(DOCPOOL) and 0 <= k1 < len(DOCPOOL) and 0 <= k2 < len(DOCPOOL)
    pre: n >= 3 or k2 == 0
    pre: n >= 2 or k1 == 0
    post: _
    """
    from vlib.params import sel

    nn = sel(n - 1, 3) + 1
    ks = [sel(k0, len(DOCPOOL)), sel(k1, len(DOCPOOL)), sel(k2, len(DOCPOOL))][:nn]
    with concrete_section():
        docs = [copy.deepcopy(DOCPOOL[k]) for k in ks]
        ok, detail = verdict("coll", docs)
        if not ok and kf_known("coll", detail):
            ok = True
    return fin(ok)


def c07_explain(b: int, pi: int, op: int, ri: int) -> str:
    kind, base = BASES[b]
    doc = mutate(base, PATHS[b][pi], op, REPL[ri])
    return f"{kind} path={PATHS[b][pi]} op={op} repl={REPL[ri]!r} -> {verdict(kind, doc)}"


# ---------------------------------------------------------------- date spellings (structured text)
DATE_Y, DATE_M, DATE_D = [2023, 2024, 0, 10000], [0, 1, 2, 9, 12, 13], [0, 1, 28, 29, 30, 31, 32]
DATE_FORMS = ["{y:04d}-{m:02d}-{d:02d}", "{y}/{m}/{d}", "{y:04d}/{m:02d}/{d:02d}", "{y}-{m}-{d}", "{d:02d}.{m:02d}.{y:04d}"]


def c07_dates(field: int, form: int, y: int, m: int, d: int) -> bool:
    """
    pre: 0 <= field < 2
    pre: 0 <= form < len(DATE_FORMS)
    pre: 0 <= y < len(DATE_Y) and 0 <= m < len(DATE_M) and 0 <= d < len(DATE_D)
    post: _
    """
    from vlib.params import sel

    fi, fo = sel(field, 2), sel(form, len(DATE_FORMS))
    yy, mm, dd = DATE_Y[sel(y, len(DATE_Y))], DATE_M[sel(m, len(DATE_M))], DATE_D[sel(d, len(DATE_D))]
    with concrete_section():
        text = DATE_FORMS[fo].format(y=yy, m=mm, d=dd)
        ok = True
        for kind, base in (("rule", RULE), ("filter", FILT), ("corr", CORR)):
            doc = mutate(base, (["date", "modified"][fi],), 1, text)
            o, detail = verdict(kind, doc)
            if not o and not kf_known(kind, detail):
                ok = False
    return fin(ok)


# ---------------------------------------------------------------- scalar parsers on symbolic text
SCALARS = [
    ("rule", ("id",)), ("rule", ("date",)), ("rule", ("modified",)), ("rule", ("status",)), ("rule", ("level",)),
    ("rule", ("name",)), ("rule", ("title",)), ("rule", ("related", 0, "type")), ("rule", ("related", 0, "id")),
    ("corr", ("correlation", "timespan")), ("corr", ("correlation", "type")), ("rule", ("detection", "condition")),
    ("rule", ("tags", 0)),
]


def c07_scalar(s: str) -> bool:
    """
    pre: len(s) <= P("LEN", 3)
    post: _
    """
    kind, path = SCALARS[P("FIELD", 0)]
    base = RULE if kind == "rule" else CORR
    doc = mutate(base, path, 1, s)
    ok, detail = verdict(kind, doc)
    if not ok and kf_known(kind, detail):
        ok = True
    return fin(ok)


def c07_doc(kind: str, doc_repr: str) -> bool:
    """Concrete-instance form: python literal of the document."""
    import ast

    return verdict(kind, ast.literal_eval(doc_repr))[0]


def c07_strict_doc(kind: str, doc_repr: str) -> bool:
    """Concrete-instance form, strict mode only: succeeds or raises a SigmaError."""
    import ast

    try:
        loader(kind)(ast.literal_eval(doc_repr), False)
    except SigmaError:
        return True
    return True


OBLIGATIONS = (
    [Ob("c07_mutation", {"BASE": b}, 900) for b in range(6)]
    + [Ob("c07_collection_order", {}, 900), Ob("c07_dates", {}, 900)]
    + [Ob("c07_scalar", {"FIELD": f, "LEN": 1 if f == 9 else (2 if f in (3, 4, 7, 10) else 3)}, 240) for f in range(len(SCALARS))]
    + [Ob("c07_scalar", {"FIELD": f, "LEN": 4}, 1200, tier="thorough", search=True) for f in range(len(SCALARS))]
    + [Ob("c07_mutation_pair", {"BASE": b}, 3000, tier="thorough", search=True) for b in range(3)]
)

SELFCHECKS = [
    ("c07_doc", {}, ("rule", repr(RULE)), True),
    ("c07_doc", {}, ("corr", repr(CORR)), True),
    ("c07_doc", {}, ("filter", repr(FILT)), True),
    ("c07_doc", {}, ("coll", repr(COLL)), True),
    ("c07_doc", {}, ("coll", repr(COLL2)), True),
    ("c07_doc", {}, ("rule", repr({"title": "x"})), True),
]
