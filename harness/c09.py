"""C09 - rule references resolve the same way whatever the document order.

Engine E1.  Symbolic: the reference DAG (which earlier documents each correlation document refers
to), the `generate` flag of every correlation, whether one correlation also names a missing rule,
and the permutation of the documents.  Each path builds the concrete documents, loads them through
the real public API (from_dicts / from_yaml / merge of two collections) in the permuted order and
converts them with the shipped test backend; the oracle compares with the canonical (topological)
order and checks the reference order of SigmaCollection.rules directly.
"""
import itertools

from sigma.backends.test import TextQueryTestBackend
from sigma.collection import SigmaCollection
from sigma.correlations import SigmaCorrelationRule
from sigma.exceptions import SigmaError, SigmaRuleNotFoundError
from vlib.obl import Ob
from vlib.params import P, concrete_section, fin

PROPERTY = "C09"
TARGETS = [
    "sigma.collection:SigmaCollection.resolve_rule_references",
    "sigma.collection:SigmaCollection.__post_init__",
    "sigma.collection:SigmaCollection.merge",
    "sigma.collection:SigmaCollection.__getitem__",
    "sigma.rule.base:SigmaRuleBase.__lt__",
    "sigma.rule.base:SigmaRuleBase.referenced_by",
    "sigma.rule.base:SigmaRuleBase.add_backreference",
    "sigma.correlations:SigmaCorrelationRule.resolve_rule_references",
    "sigma.correlations:SigmaRuleReference.resolve",
    "sigma.conversion.base:Backend.convert",
]
BOUNDS = {
    "documents": "K = 4 (quick) / 5 (thorough) documents: d0, d1 plain rules; d2.. correlation rules (or a plain unrelated rule when their reference set is empty) referring to any subset of the earlier documents, by name (even index) or id (odd index); each correlation's generate flag symbolic; optionally one reference to a missing rule (a name, or with INTREF=1 an integer)",
    "orders": "all K! permutations (symbolic selector)",
    "load paths": "from_dicts, from_yaml (one multi-document stream), merge of two sub-collections split at every inner position (quick: merge only with generate off / no missing reference), load_ruleset over two YAML files split at every inner position (real files in a scratch directory; quick: two reference shapes, generate off)",
    "outside": "more than 5 documents; load_ruleset's directory recursion and callbacks",
    "extended conditions": "EXT=1 obligations: correlation documents with >= 2 references carry them only in an extended condition expression (no 'rules' list)",
}
ASSUMPTIONS = [
    "when a rule is referenced by both generating and non-generating correlations the statement only fixes order-independence; the concrete choice (any non-generating referrer suppresses) is not asserted",
]

UUIDS = ["00000000-0000-0000-0000-00000000000%d" % i for i in range(8)]


def make_docs(k: int, refs, gens, missing: int):
    """refs[i] = sorted list of earlier doc indices document i refers to (i >= 2)."""
    docs = []
    for i in range(k):
        if i < 2 or not refs[i]:
            docs.append(
                {
                    "title": f"rule{i}",
                    "name": f"rule{i}",
                    "id": UUIDS[i],
                    "logsource": {"category": "test"},
                    "detection": {"sel": {"field": f"v{i}"}, "condition": "sel"},
                }
            )
        else:
            names = [(f"rule{j}" if j % 2 == 0 else UUIDS[j]) for j in refs[i]]
            if missing == i:
                # INTREF=1: the dangling reference is an (unquoted YAML) integer - it must not be taken as a position
                names.append(1 if P("INTREF", 0) else "nope")
            multi = len(names) > 1
            if multi and P("EXT", 0):
                # extended condition: the references exist only in the condition expression (no 'rules' list)
                docs.append(
                    {
                        "title": f"rule{i}",
                        "name": f"rule{i}",
                        "id": UUIDS[i],
                        "correlation": {
                            "type": "temporal",
                            "group-by": ["user"],
                            "timespan": "5m",
                            "condition": " and ".join([f"rule{j}" for j in refs[i]] + (["nope"] if missing == i else [])),
                            "generate": bool(gens[i]),
                        },
                    }
                )
                continue
            docs.append(
                {
                    "title": f"rule{i}",
                    "name": f"rule{i}",
                    "id": UUIDS[i],
                    "correlation": {
                        "type": "temporal" if multi else "event_count",
                        "rules": names,
                        "group-by": ["user"],
                        "timespan": "5m",
                        **({} if multi else {"condition": {"gte": 2}}),
                        "generate": bool(gens[i]),
                    },
                }
            )
    return docs


def load(docs, path: int, split: int):
    if path == 0:
        return SigmaCollection.from_dicts(docs)
    if path == 1:
        import yaml

        return SigmaCollection.from_yaml(yaml.safe_dump_all(docs))
    if path == 3:
        # load_ruleset over two files (documents before / from the split position), real file I/O in a scratch directory
        import os
        import shutil
        import tempfile

        import yaml

        os.makedirs("/verif/evidence/work", exist_ok=True)
        d = tempfile.mkdtemp(prefix="c09_", dir="/verif/evidence/work")
        try:
            files = []
            for nm, part in (("a.yml", docs[:split]), ("b.yml", docs[split:])):
                if part:
                    fn = os.path.join(d, nm)
                    with open(fn, "w", encoding="utf-8") as f:
                        f.write(yaml.safe_dump_all(part))
                    files.append(fn)
            return SigmaCollection.load_ruleset(files)
        finally:
            shutil.rmtree(d, ignore_errors=True)
    a = SigmaCollection.from_dicts(docs[:split], resolve_references=False) if split > 0 else SigmaCollection([], resolve_references=False)
    b = SigmaCollection.from_dicts(docs[split:], resolve_references=False) if split < len(docs) else SigmaCollection([], resolve_references=False)
    m = SigmaCollection.merge([a, b])
    return m


def outcome(docs, path: int, split: int):
    """-> ("error", exception class name) | ("ok", order_ok, sorted queries, per-title results)"""
    try:
        coll = load(docs, path, split)
    except SigmaError as e:
        return ("load-error", type(e).__name__)
    pos = {id(r): i for i, r in enumerate(coll.rules)}
    order_ok = True
    for r in coll.rules:
        if isinstance(r, SigmaCorrelationRule):
            for ref in r.referenced_rules:
                if id(ref.rule) not in pos or pos[id(ref.rule)] > pos[id(r)]:
                    order_ok = False
    b = TextQueryTestBackend()
    try:
        out = b.convert(coll)
    except SigmaError as e:
        return ("convert-error", type(e).__name__, order_ok)
    per = {}
    for r in coll.rules:
        try:
            per[r.title] = list(r.get_conversion_result())
        except SigmaError:
            per[r.title] = None
    return ("ok", order_ok, sorted(out), per, len(out))


def expected_emitted(k, refs, gens):
    """Number of queries when no rule has mixed (generating + non-generating) referrers, else None."""
    n = 0
    for i in range(k):
        referrers = [j for j in range(k) if j >= 2 and refs[j] and i in refs[j]]
        g = [gens[j] for j in referrers]
        if g and any(g) and not all(g):
            return None
        if not referrers or all(g):
            n += 1
    return n


def check(k, refs, gens, missing, perm, path, split) -> bool:
    docs = make_docs(k, refs, gens, missing)
    canon = outcome(docs, 0, 0)
    got = outcome([docs[i] for i in perm], path, split)
    has_missing = missing >= 2 and bool(refs[missing])
    if has_missing:
        return got == ("load-error", "SigmaCorrelationRuleError" if P("INTREF", 0) else "SigmaRuleNotFoundError") and canon == got
    if got[0] != "ok" or canon[0] != "ok":
        return False
    if not got[1] or not canon[1]:
        return False
    if got[2] != canon[2] or got[3] != canon[3]:
        return False
    exp = expected_emitted(k, refs, gens)
    if exp is not None and got[4] != exp:
        return False
    return True


def _subsets(n):
    return [[j for j in range(n) if (m >> j) & 1] for m in range(2**n)]


def c09_order(r2: int, r3: int, r4: int, g2: bool, g3: bool, g4: bool, miss: int, pi: int, split: int) -> bool:
    """
    pre: 0 <= r2 < 4 and 0 <= r3 < 8 and 0 <= r4 < 16
    pre: 0 <= miss <= 1
    pre: 0 <= pi < P("NPERM", 24)
    pre: 0 <= split <= P("K", 4)
    post: _
    """
    k = P("K", 4)
    path = P("PATH", 0)
    # cheap canonical-form cuts first (one fork each instead of one per value)
    if k < 5 and (r4 != 0 or g4):
        return True
    if P("R3", -1) >= 0 and r3 != P("R3", -1):
        return True
    if P("R4", -1) >= 0 and r4 != P("R4", -1):
        return True
    if path < 2 and split != 0:
        return True
    if path >= 2 and (split < 1 or split >= k):
        return True
    if P("LITE", 0) and (g2 or g3 or g4 or miss != 0):
        return True
    rsel = [r2, r3, r4]
    refs = [[], []]
    for i in range(2, 5):
        subs = _subsets(i)
        v = 0
        for j in range(len(subs)):
            if rsel[i - 2] == j:
                v = j
        if i >= k and v != 0:
            return True
        refs.append(subs[v])
    gens = [False, False, True if g2 else False, True if g3 else False, True if g4 else False]
    for i in range(2, 5):
        if gens[i] and (i >= k or not refs[i]):
            return True  # canonical representation
    mm = -1
    if miss == 1:
        # the missing reference is attached to the last correlation document
        cands = [i for i in range(2, k) if refs[i]]
        if not cands:
            return True
        mm = cands[-1]
    perms = list(itertools.permutations(range(k)))
    perm = perms[0]
    for j in range(len(perms)):
        if pi == j:
            perm = perms[j]
    sp = 0
    for j in range(k + 1):
        if split == j:
            sp = j
    with concrete_section():
        ok = check(k, refs, gens, mm, perm, path, sp)
    return fin(ok)


def c09_strict_fresh_collection_of_used_rules() -> bool:
    """Witness form for known finding c09-output-flag-survives-in-rule-objects: rule objects that were part of a
    collection with a non-generating correlation rule, put into a NEW collection without it, emit their queries."""
    docs = make_docs(3, [[], [], [0]], [False] * 5, -1)
    full = SigmaCollection.from_dicts(docs)
    plain = SigmaCollection([r for r in full.rules if not isinstance(r, SigmaCorrelationRule)])
    got = sorted(TextQueryTestBackend().convert(plain))
    want = sorted(TextQueryTestBackend().convert(SigmaCollection.from_dicts(docs[:2])))
    return got == want


def c09_concrete_intref() -> bool:
    """Witness: documents 0..3, document 3 refers to rule 1 and to the integer 1; orders (0,1,2,3) and (1,0,2,3)."""
    return check(4, [[], [], [], [1]], [False] * 5, 3, (0, 1, 2, 3), 0, 0) and check(4, [[], [], [], [1]], [False] * 5, 3, (1, 0, 3, 2), 0, 0)


def c09_concrete(k: int, refs_csv: str, gens_csv: str, perm_csv: str, path: int, split: int) -> bool:
    """Concrete-instance form: refs '0;0,1;2' for documents 2.. ; gens '1;0;1' ; perm '3,2,0,1'."""
    refs = [[], []] + [[int(x) for x in part.split(",") if x != ""] for part in refs_csv.split(";")]
    while len(refs) < 5:
        refs.append([])
    gens = [False, False] + [g == "1" for g in gens_csv.split(";")]
    while len(gens) < 5:
        gens.append(False)
    perm = [int(x) for x in perm_csv.split(",")]
    return check(k, refs, gens, -1, perm, path, split)


OBLIGATIONS = (
    [Ob("c09_order", {"K": 4, "NPERM": 24, "PATH": p, "R3": r}, 600) for p in (0, 1) for r in range(8)]
    + [Ob("c09_order", {"K": 4, "NPERM": 24, "PATH": 2, "R3": r, "LITE": 1}, 600) for r in range(8)]
    + [Ob("c09_order", {"K": 4, "NPERM": 24, "PATH": 0, "R3": r, "EXT": 1, "LITE": 1}, 600) for r in (3, 5, 6, 7)]
    + [Ob("c09_order", {"K": 4, "NPERM": 24, "PATH": 3, "R3": r, "LITE": 1}, 600) for r in (1, 6)]
    + [Ob("c09_order", {"K": 4, "NPERM": 24, "PATH": 0, "R3": r, "INTREF": 1}, 600) for r in (1, 6)]
    + [Ob("c09_order", {"K": 4, "NPERM": 24, "PATH": 3, "R3": r}, 3000, tier="thorough") for r in range(8)]
    + [Ob("c09_order", {"K": 4, "NPERM": 24, "PATH": p, "R3": r, "EXT": 1}, 1800, tier="thorough") for p in (0, 1, 2) for r in (3, 5, 6, 7)]
    + [Ob("c09_order", {"K": 4, "NPERM": 24, "PATH": 2, "R3": r}, 3000, tier="thorough") for r in range(8)]
    + [Ob("c09_order", {"K": 5, "NPERM": 120, "PATH": 0, "R4": r, "LITE": 1}, 3000, tier="thorough") for r in range(1, 16)]
)

SELFCHECKS = [
    ("c09_concrete", {}, (4, "0;", "0;", "0,1,2,3", 0, 0), True),
    ("c09_concrete", {}, (4, "0;2", "0;1", "0,1,2,3", 1, 0), True),
]
