"""C05 - string values keep their exact characters and wildcards in every rendering.

Engine E1: CrossHair executes the real sigma.types / sigma.conversion.base code on a symbolic
`str` (all Unicode strings up to the stated length).  Oracles: /verif/ref/sigmastr.py.
"""
import re

from ref.sigmastr import M, S, decode_target, ref_parse
from sigma.exceptions import SigmaValueError
from sigma.types import Placeholder, SigmaRegularExpression, SigmaString, SpecialChars
from vlib.known import excluded
from vlib.obl import Ob
from vlib.params import P, fin

PROPERTY = "C05"
TARGETS = [
    "sigma.types:SigmaString.__init__",
    "sigma.types:SigmaString.to_plain",
    "sigma.types:SigmaString.convert",
    "sigma.types:SigmaString.to_regex",
    "sigma.types:SigmaString.__getitem__",
    "sigma.types:SigmaString.__len__",
    "sigma.types:SigmaRegularExpression.escape",
    "sigma.conversion.base:TextQueryBackend.escape_and_quote_field",
    "sigma.conversion.base:TextQueryBackend.convert_value_str",
    "sigma.conversion.base:TextQueryBackend.decide_string_quoting",
    "sigma.conversion.base:TextQueryBackend.quote_string",
    "sigma.types:SigmaString.__add__",
    "sigma.types:SigmaString.__radd__",
]
BOUNDS = {
    "value string": "every Unicode string with len <= VERIF_LEN (quick 3, thorough 4; convert: 3/4)",
    "slice indices": "start, stop in -5..5 or absent",
    "configurations": "the 7 escaping configurations of CFGS, 3 field-quoting configurations, 3 regex-escape configurations",
    "outside": "longer strings; configurations other than the instantiated ones; regex language equivalence is only checked for the concrete family of the thorough tier",
}
ASSUMPTIONS = [
    "stub: SigmaRegularExpression.compile (re.compile validity check) is a no-op inside c05d_to_regex; the thorough-tier regex family runs it for real",
    "target-language decoder = ref.sigmastr.decode_target (escape char makes next char literal; unescaped wildcard token is a wildcard)",
    "harness parameters are scalars; strings are CrossHair symbolic str over full Unicode",
]


def flat(ss: SigmaString):
    out = []
    for p in ss.s:
        if isinstance(p, str):
            for ch in p:
                out.append(("c", ch))
        elif p == SpecialChars.WILDCARD_MULTI:
            out.append(M)
        elif p == SpecialChars.WILDCARD_SINGLE:
            out.append(S)
        elif isinstance(p, Placeholder):
            out.append(("P", p.name))
        else:
            raise TypeError(p)
    return out


# --- a. parser == reference parser -------------------------------------------------------------
def c05a_parse(s: str) -> bool:
    """
    pre: len(s) <= P("LEN", 3)
    post: _
    """
    ss = SigmaString(s)
    ok = flat(ss) == ref_parse(s) and ss.original == s
    # parts are maximal: no empty and no adjacent plain parts
    for i, p in enumerate(ss.s):
        if isinstance(p, str) and (p == "" or (i > 0 and isinstance(ss.s[i - 1], str))):
            ok = False
    return fin(ok)


# --- b. plain form re-parses to the identical value ---------------------------------------------
def kf_plain_backslash(s: str) -> bool:
    """Trigger of known finding plain-backslash-before-special: the parsed value contains a
    literal backslash directly followed by a literal backslash, a literal `*`/`?` or a wildcard
    (to_plain() does not escape that backslash, so the plain form re-parses differently)."""
    t = ref_parse(s)
    for i in range(len(t) - 1):
        if t[i] == ("c", "\\"):
            n = t[i + 1]
            if n == M or n == S or n == ("c", "\\") or n == ("c", "*") or n == ("c", "?"):
                return True
    return False


def c05b_plain_roundtrip(s: str) -> bool:
    """
    pre: len(s) <= P("LEN", 3)
    pre: not excluded("plain-backslash-before-special", kf_plain_backslash(s))
    post: _
    """
    x = SigmaString(s)
    y = SigmaString(x.to_plain())
    return fin(flat(x) == flat(y) and x == y and str(x) == x.to_plain())


# --- c. target rendering decodes to the source pattern -----------------------------------------
#        (escape_char, wildcard_multi, wildcard_single, add_escaped, filter_chars)
CFGS = [
    ("\\", "*", "?", '\\"', ""),  # 0 backslash escape, self-escaped, quote escaped
    ("\\", "%", "_", "\\'", ""),  # 1 SQL-like wildcard tokens
    ("^", "*", "?", '^"', ""),  # 2 non-backslash escape character
    ("\\", ".*", ".", ".*+?^$[](){}\\|", ""),  # 3 the configuration to_regex() uses
    ("\\", "*", "?", '\\"', "'&"),  # 4 with filtered characters
    (None, None, None, "", ""),  # 5 no wildcard support, no escaping
    ("\\", "*", "?", ":", "&"),  # 6 shipped test backend: escape char NOT in the escaped set
    ("\\", ".*", ".", "\\", ""),  # 7 multi-character wildcard token whose characters are not listed in add_escaped
    ("\\", "%%", "_", "\\", ""),  # 8 doubled-character wildcard token
]


def kf_escape_not_selfescaped(s: str, cfg: int) -> bool:
    """Trigger of known finding c05-escape-char-not-escaped: the configuration does not list its
    own escape character among the escaped characters and the value contains that character."""
    esc, wm, ws, add, flt = CFGS[cfg]
    return esc is not None and esc not in add and esc in s


def c05c_convert(s: str) -> bool:
    """
    pre: len(s) <= P("LEN", 3)
    pre: not excluded("c05-escape-char-not-escaped", kf_escape_not_selfescaped(s, P("CFG", 0)))
    post: _
    """
    esc, wm, ws, add, flt = CFGS[P("CFG", 0)]
    x = SigmaString(s)
    want = [t for t in ref_parse(s) if not (t[0] == "c" and t[1] in flt)]
    try:
        text = x.convert(esc, wm, ws, add, flt)
    except SigmaValueError:
        # only legitimate when the configuration has no token for a wildcard the value uses
        return fin((wm is None and M in want) or (ws is None and S in want))
    if (wm is None and M in want) or (ws is None and S in want):
        return fin(False)
    got = decode_target(text, esc, wm, ws)
    ok = got == want
    # no unescaped occurrence of an escaped ("meta") character that stems from a literal
    return fin(ok)


# --- d. to_regex(): regex-dialect decode --------------------------------------------------------
REGEX_META = ".*+?^$[](){}\\|"


def c05d_to_regex(s: str) -> bool:
    """
    pre: len(s) <= P("LEN", 3)
    post: _
    """
    x = SigmaString(s)
    saved = SigmaRegularExpression.compile
    SigmaRegularExpression.compile = lambda self: None  # stub: re.compile validation (C code on symbolic text)
    try:
        r = x.to_regex()
    finally:
        SigmaRegularExpression.compile = saved
    text = str(r.regexp)
    # decode: backslash + c -> literal c ; ".*" -> M ; "." -> S ; other metachar -> must not occur
    out = []
    i = 0
    ok = True
    while i < len(text):
        c = text[i]
        if c == "\\":
            if i + 1 >= len(text):
                ok = False
                break
            out.append(("c", text[i + 1]))
            i += 2
        elif c == ".":
            if i + 1 < len(text) and text[i + 1] == "*":
                out.append(M)
                i += 2
            else:
                out.append(S)
                i += 1
        elif c in REGEX_META:
            ok = False
            break
        else:
            out.append(("c", c))
            i += 1
    return fin(ok and out == ref_parse(s))


# --- e. slicing ---------------------------------------------------------------------------------
SLICES = [(1, None), (None, -1), (1, -1), (0, None), (None, 1)]


def c05e_slice_backend(s: str) -> bool:
    """
    pre: len(s) <= P("LEN", 3)
    post: _
    """
    a, b = SLICES[P("SL", 0)]
    x = SigmaString(s)
    f = flat(x)
    if len(x) != len(f):
        return fin(False)
    return fin(flat(x[a:b]) == f[a:b])


def c05e_slice(s: str, start: int, stop: int, has_start: bool, has_stop: bool) -> bool:
    """
    pre: len(s) <= P("LEN", 3)
    pre: -3 <= start <= 3 and -3 <= stop <= 3
    post: _
    """
    x = SigmaString(s)
    f = flat(x)
    a = start if has_start else None
    b = stop if has_stop else None
    n = len(f)
    if len(x) != n:
        return fin(False)
    try:
        y = x[a:b]
    except IndexError:
        # documented: out-of-range indices raise; in-range slices never do
        na = 0 if a is None else (a + n if a < 0 else a)
        nb = n if b is None else (b + n if b < 0 else b)
        return fin(na < 0 or nb < 0 or nb > n)
    return fin(flat(y) == f[a:b])


def c05e_index(s: str, i: int) -> bool:
    """
    pre: len(s) <= P("LEN", 3)
    pre: -4 <= i <= 4
    post: _
    """
    x = SigmaString(s)
    f = flat(x)
    n = len(f)
    try:
        y = x[i]
    except IndexError:
        return fin(i < -n)
    if i >= n:
        return fin(flat(y) == [])
    return fin(flat(y) == [f[i]])


# --- f. field names ------------------------------------------------------------------------------
def _field_backend(cfg: int):
    from sigma.backends.test import TextQueryTestBackend

    b = TextQueryTestBackend()
    if cfg == 0:  # quote unless plain word; escape whitespace, the escape char and the quote
        b.field_quote = "'"
        b.field_quote_pattern = re.compile("^\\w+$")
        b.field_quote_pattern_negation = True
        b.field_escape = "\\"
        b.field_escape_quote = True
        b.field_escape_pattern = re.compile("[\\s\\\\]")
    elif cfg == 1:  # always quote, escape quote + escape char
        b.field_quote = '"'
        b.field_quote_pattern = None
        b.field_escape = "\\"
        b.field_escape_quote = True
        b.field_escape_pattern = re.compile("\\\\")
    elif cfg == 3:  # always quote; the escape pattern also matches the quote character and the escape char
        b.field_quote = "'"
        b.field_quote_pattern = None
        b.field_escape = "\\"
        b.field_escape_quote = True
        b.field_escape_pattern = re.compile("[^\\w.]")
    else:  # no quoting, escape whitespace and escape char
        b.field_quote = None
        b.field_quote_pattern = None
        b.field_escape = "\\"
        b.field_escape_quote = False
        b.field_escape_pattern = re.compile("[\\s\\\\]")
    return b


def c05f_field(name: str) -> bool:
    """
    pre: len(name) <= P("LEN", 3)
    post: _
    """
    cfg = P("CFG", 0)
    b = _field_backend(cfg)
    text = b.escape_and_quote_field(name)
    q = b.field_quote
    quoted = False
    if q is not None and len(text) >= 2 and text[0] == q and text[-1] == q and (cfg in (1, 3) or not re.match("^\\w+$", name)):
        text = text[1:-1]
        quoted = True
    if cfg in (1, 3) and not quoted:
        return fin(False)
    out = []
    i = 0
    while i < len(text):
        if text[i] == "\\":
            if i + 1 >= len(text):
                return fin(False)
            out.append(text[i + 1])
            i += 2
        else:
            if q is not None and quoted and text[i] == q:
                return fin(False)  # unescaped quote inside the quoted name terminates it
            if not quoted and cfg not in (1, 3) and text[i].isspace():
                return fin(False)  # unescaped whitespace terminates an unquoted name
            out.append(text[i])
            i += 1
    return fin("".join(out) == name)


# --- h. convert_value_str: quoting decision + escaping, also for derived values ---------------------
VALPH = ["a", " ", '"', "\\", "*", "?", "\t"]


def _value_backend(cfg: int):
    from sigma.backends.test import TextQueryTestBackend

    b = TextQueryTestBackend()
    b.escape_char = "\\"
    b.wildcard_multi = "*"
    b.wildcard_single = "?"
    b.add_escaped = "\\"
    b.filter_chars = ""
    b.str_quote = '"'
    if cfg == 0:  # quote only when needed (whitespace or empty)
        b.str_quote_pattern = re.compile("^$|.*\\s", re.S)
        b.str_quote_pattern_negation = False
    elif cfg == 1:  # negated form: quote unless the value is a plain word
        b.str_quote_pattern = re.compile("^\\w+$")
        b.str_quote_pattern_negation = True
    elif cfg == 3:  # quote exactly when the value contains whitespace
        b.str_quote_pattern = re.compile(".*\\s", re.S)
        b.str_quote_pattern_negation = False
    else:  # always quote
        b.str_quote_pattern = None
    return b


def c05h_value_str(n: int, k0: int, k1: int, k2: int, k3: int, op: int) -> bool:
    """
    pre: 0 <= n <= P("LEN", 3)
    pre: 0 <= k0 < 7 and 0 <= k1 < 7 and 0 <= k2 < 7 and 0 <= k3 < 7
    pre: 0 <= op < 6
    post: _
    """
    from sigma.conversion.state import ConversionState

    ks = [k0, k1, k2, k3]
    src = ""
    for i in range(4):
        if i < n:
            for j in range(7):
                if ks[i] == j:
                    src += VALPH[j]
        elif ks[i] != 0:
            return True
    oo = 0
    for j in range(6):
        if op == j:
            oo = j
    from vlib.params import concrete_section

    with concrete_section():
        return fin(_value_str(src, oo, P("CFG", 0)))


def _value_str(src: str, op: int, cfg: int) -> bool:
    from sigma.conversion.state import ConversionState

    b = _value_backend(cfg)
    v = SigmaString(src)
    want = ref_parse(src)
    # derived values, as the modifiers and the backend produce them after parsing
    if op == 1:
        v, want = v[1:], want[1:]
    elif op == 2:
        v, want = v[:-1], want[:-1]
    elif op == 3:
        v, want = SpecialChars.WILDCARD_MULTI + v + SpecialChars.WILDCARD_MULTI, [M] + want + [M]
    elif op == 4:
        v, want = v.upper(), [("c", t[1].upper()) if t[0] == "c" else t for t in want]
    elif op == 5:
        v, want = v + SigmaString("x y"), want + [("c", "x"), ("c", " "), ("c", "y")]
    text = b.convert_value_str(v, ConversionState())
    q = b.str_quote
    # the decoder of the target language: a literal is either quoted or a bare word
    if len(text) >= 2 and text[0] == q and text[-1] == q:
        body = text[1:-1]
        got = decode_target(body, "\\", "*", "?")
        # an unescaped quote inside would terminate the literal early
        i = 0
        while i < len(body):
            if body[i] == "\\":
                i += 2
                continue
            if body[i] == q:
                return False
            i += 1
        return got == want
    # bare word: must not contain anything that ends a bare word, and must not be empty
    if (text == "" and cfg != 3) or any(ch.isspace() for ch in text) or q in text.replace("\\" + q, ""):
        return False
    return decode_target(text, "\\", "*", "?") == want


# --- g. regular expression escaping ---------------------------------------------------------------
RCFG = [
    (("/",), "\\", True),
    (("/", "bar"), "\\", True),
    (("/",), "\\", False),
]


RALPH = ["a", "/", "\\", "b", "r", ".", "("]


def c05g_regex_escape(n: int, k0: int, k1: int, k2: int, k3: int) -> bool:
    """
    pre: 0 <= n <= P("LEN", 3)
    pre: 0 <= k0 < 7 and 0 <= k1 < 7 and 0 <= k2 < 7 and 0 <= k3 < 7
    post: _
    """
    # the regular expression text is assembled from symbolic *selectors* so that CPython's own
    # `re` runs on a concrete string on every path (CrossHair's regex model is not trusted here)
    ks = [k0, k1, k2, k3]
    r = ""
    for i in range(4):
        if i < n:
            for j in range(7):
                if ks[i] == j:
                    r += RALPH[j]
        elif ks[i] != 0:
            return True  # canonical representation of unused selectors: not a separate case
    escaped, esc_char, esc_esc = RCFG[P("CFG", 0)]
    try:
        rx = SigmaRegularExpression(r)
    except Exception:
        return fin(True)  # not a valid regular expression: rejected at load time
    text = rx.escape(escaped, esc_char, esc_esc)
    # un-escaping: remove one escape char in front of every escaped token (and of the escape
    # char itself when it is escaped too) must give back the source text
    toks = list(escaped) + ([esc_char] if esc_esc else [])
    out = []
    i = 0
    while i < len(text):
        hit = None
        if text.startswith(esc_char, i):
            for t in toks:
                if text.startswith(t, i + len(esc_char)):
                    hit = t
                    break
        if hit is not None:
            out.append(hit)
            i += len(esc_char) + len(hit)
        else:
            out.append(text[i])
            i += 1
    return fin("".join(out) == r)


OBLIGATIONS = (
    [
        Ob("c05a_parse", {"LEN": 3}, 120),
        Ob("c05a_parse", {"LEN": 4}, 600, tier="thorough"),
        Ob("c05b_plain_roundtrip", {"LEN": 3}, 120),
        Ob("c05b_plain_roundtrip", {"LEN": 4}, 600, tier="thorough"),
        Ob("c05d_to_regex", {"LEN": 2}, 180),
        Ob("c05d_to_regex", {"LEN": 3}, 1500, tier="thorough"),
        
        Ob("c05e_index", {"LEN": 2}, 900, tier="thorough", search=True, note="integer indexing is not used by the library itself"),
        Ob("c05e_slice", {"LEN": 2}, 900, tier="thorough", search=True, note="general slices; the backend only uses the SLICES instantiations"),
    ]
    + [Ob("c05e_slice_backend", {"LEN": 3, "SL": i}, 120) for i in range(len(SLICES))]
    + [Ob("c05e_slice_backend", {"LEN": 4, "SL": i}, 600) for i in range(len(SLICES))]
    + [Ob("c05e_slice_backend", {"LEN": 5, "SL": i}, 1200, tier="thorough") for i in range(len(SLICES))]
    + [
    ]
    + [Ob("c05c_convert", {"LEN": 3, "CFG": c}, 180) for c in range(len(CFGS)) if c != 3]
    + [Ob("c05c_convert", {"LEN": 2, "CFG": 3}, 180)]
    + [Ob("c05c_convert", {"LEN": 4, "CFG": c}, 900, tier="thorough") for c in range(len(CFGS))]
    + [Ob("c05f_field", {"LEN": 3, "CFG": c}, 240) for c in range(4)]
    + [Ob("c05h_value_str", {"LEN": 3, "CFG": c}, 240) for c in range(4)]
    + [Ob("c05h_value_str", {"LEN": 4, "CFG": c}, 1200, tier="thorough") for c in range(4)]
    + [Ob("c05g_regex_escape", {"LEN": 3, "CFG": c}, 240) for c in range(3)]
)

SELFCHECKS = [
    ("c05a_parse", {}, ("a*b\\*c\\\\?",), True),
    ("c05b_plain_roundtrip", {}, ("a\\*b*",), True),
    ("c05c_convert", {"CFG": 0}, ('a"b\\*',), True),
    ("c05c_convert", {"CFG": 3}, ("a.b*c?",), True),
    ("c05d_to_regex", {}, ("a.b*c?\\\\",), True),
    ("c05e_slice", {}, ("a*b?c", 1, -1, True, True), True),
    ("c05f_field", {"CFG": 0}, ("a b",), True),
    ("c05g_regex_escape", {"CFG": 0}, (4, 0, 1, 2, 2), True),
]
