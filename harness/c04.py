"""C04 - encoding modifiers find the payload in encoded data at every alignment.

a. base64offset / base64 (engine E2, term-stub + z3): the real modifier code (reached through
   SigmaDetectionItem.from_mapping) runs with `sigma.modifiers.b64encode` and `bytes()` replaced by
   the token model of stubs/b64model.py.  For every payload *length profile* (UTF-8 widths of its
   characters) and every prefix length k in 0..5 / suffix length m in 0..5, z3 decides over ALL
   payload bytes (valid UTF-8 of that profile), ALL prefix bytes and ALL suffix bytes whether the
   value produced for alignment k mod 3 occurs in Base64(prefix + payload + suffix).
b. wide / utf16le / utf16be / utf16 / base64 and their chains (engine E1, character-class selectors):
   bytes of the produced value == codec bytes of the payload, or the modifier rejects.
c. long payloads (engine E1, length selector).
"""
import base64
import time

from sigma.exceptions import SigmaError, SigmaValueError
from sigma.rule.detection import SigmaDetectionItem
from sigma.types import SigmaExpansion, SigmaString
from vlib.known import excluded
from vlib.obl import Ob
from vlib.params import P, concrete_section, fin

PROPERTY = "C04"
TARGETS = [
    "sigma.modifiers:SigmaBase64OffsetModifier.modify",
    "sigma.modifiers:SigmaBase64Modifier.modify",
    "sigma.modifiers:SigmaWideModifier.modify",
    "sigma.modifiers:SigmaUTF16BEModifier.modify",
    "sigma.modifiers:SigmaUTF16Modifier.modify",
    "sigma.types:SigmaString.__bytes__",
    "sigma.types:SigmaString.__len__",
]
BOUNDS = {
    "base64offset (E2)": "payload profiles: 1..3 characters (quick) / 1..4 (thorough), each of UTF-8 width 1..4, plus all-ASCII payloads of 4..12 (quick) / 4..24 (thorough) characters; prefix 0..5 and suffix 0..5 bytes; all byte VALUES (payload: valid UTF-8 of the profile without '*', '?', '\\\\'; context: any) are decided by z3",
    "codecs (E1)": "payloads of <= 2 (quick) / 3 (thorough) characters drawn from 24 representative character classes; exhaustive over classes, not over code points",
    "long payloads": "'a' * n and mixed pattern for n in 0..150",
    "outside": "longer payloads / contexts; code points other than the class representatives for the codec checks",
}
ASSUMPTIONS = [
    "stub: sigma.modifiers.b64encode and sigma.modifiers.bytes replaced by stubs.b64model (validated against base64.b64encode at the start of every run)",
    "a counterexample of the z3 queries is replayed through the real API with real base64 before it is reported",
]

W = {1: "a", 2: "é", 3: "က", 4: "\U00010000"}


def _profiles(maxchars, ascii_max):
    out = []

    def rec(cur):
        if cur:
            out.append(tuple(cur))
        if len(cur) < maxchars:
            for w in (1, 2, 3, 4):
                rec(cur + [w])

    rec([])
    for n in range(maxchars + 1, ascii_max + 1):
        out.append((1,) * n)
    return out


def _token_values(payload: str, chain: str):
    """Run the real modifier chain on the token stubs; returns the list of token strings."""
    import sigma.modifiers as M
    from stubs import b64model

    b64model.reset()
    real_bytes = bytes
    target = {}

    def fake_bytes(v, *a):
        if isinstance(v, SigmaString) and not a:
            n = len(real_bytes(v))
            target["n"] = n
            return b64model.TokBytes.payload(n)
        return real_bytes(v, *a)

    saved = (M.b64encode, M.__dict__.get("bytes"))
    M.b64encode = b64model.b64encode
    M.bytes = fake_bytes
    try:
        item = SigmaDetectionItem.from_mapping("f|" + chain, payload)
    finally:
        M.b64encode = saved[0]
        if saved[1] is None:
            del M.bytes
        else:
            M.bytes = saved[1]
    vals = item.value
    if len(vals) == 1 and isinstance(vals[0], SigmaExpansion):
        vals = vals[0].values
    out = []
    for v in vals:
        if not isinstance(v, SigmaString) or any(not isinstance(p, str) for p in v.s):
            raise ValueError("value is not a plain string")
        s = "".join(v.s)
        if any(not b64model.is_token(ch) for ch in s):
            raise ValueError("non-token text in value")
        out.append(s)
    return out, target.get("n")


def _utf8_constraints(z3, pvars, profile):
    cs = []
    j = 0
    for w in profile:
        b = pvars[j : j + w]
        if w == 1:
            cs += [z3.UGE(b[0], 1), z3.ULE(b[0], 0x7F), b[0] != 0x2A, b[0] != 0x3F, b[0] != 0x5C]
        elif w == 2:
            cs += [z3.UGE(b[0], 0xC2), z3.ULE(b[0], 0xDF)]
        elif w == 3:
            cs += [z3.UGE(b[0], 0xE1), z3.ULE(b[0], 0xEC)]
        else:
            cs += [z3.UGE(b[0], 0xF1), z3.ULE(b[0], 0xF3)]
        for c in b[1:]:
            cs += [z3.UGE(c, 0x80), z3.ULE(c, 0xBF)]
        j += w
    return cs


def _offset_replay_ok(payload: str, pre: bytes, suf: bytes) -> bool:
    """The property on the real code: value for alignment len(pre) % 3 occurs in b64(pre+payload+suf)."""
    item = SigmaDetectionItem.from_mapping("f|base64offset", payload)
    vals = item.value[0].values if isinstance(item.value[0], SigmaExpansion) else item.value
    if len(vals) != 3:
        return False
    enc = base64.b64encode(pre + payload.encode() + suf).decode()
    v = vals[len(pre) % 3]
    text = "".join(p for p in v.s if isinstance(p, str))
    return text in enc and "=" not in text


def c04a_offset_replay(payload: str, pre_hex: str, suf_hex: str) -> bool:
    if P("TWIN", 0):
        return False
    return _offset_replay_ok(payload, bytes.fromhex(pre_hex), bytes.fromhex(suf_hex))


def _concrete_fallback(profile):
    payload = "".join(W[w] for w in profile)
    for k in range(6):
        for m in range(6):
            for fill in (b"\xff", b"\x00", b"A"):
                if not _offset_replay_ok(payload, fill * k, fill * m):
                    return [payload, (fill * k).hex(), (fill * m).hex()]
    return None


def c04a_offset(tmo: float) -> dict:
    import z3

    from stubs import b64model

    nval = b64model.validate()
    thorough = P("DEEP", 0) == 1
    profiles = _profiles(4 if thorough else 3, 24 if thorough else 12)
    t_end = time.time() + tmo
    queries = 0
    solver_s = 0.0
    samples = []
    unmodelled = []
    s = z3.Solver()

    def res(verdict, **kw):
        d = {"verdict": verdict, "paths": len(profiles), "solver_queries": queries, "solver_s": round(solver_s, 3), "samples": samples}
        d.update(kw)
        return d

    for profile in profiles:
        payload = "".join(W[w] for w in profile)
        try:
            toks, n = _token_values(payload, "base64offset")
            if len(toks) != 3 or n != sum(profile):
                raise ValueError("expected three values")
        except Exception as e:
            cex = _concrete_fallback(profile)
            if cex is not None:
                return res("counterexample", cex_args=cex, message=f"profile {profile}: token execution not possible ({e!r}); concrete probe fails")
            unmodelled.append(f"{profile}: {e!r}")
            continue
        pv = [z3.BitVec(f"p{j}", 8) for j in range(n)]
        val_terms = [[b64model.char_term(ch, pv) for ch in t] for t in toks]
        s.push()
        s.add(_utf8_constraints(z3, pv, profile))
        for k in range(6):
            for m in range(6):
                if time.time() > t_end:
                    return res("inconclusive", message="time budget exhausted")
                pre = [z3.BitVec(f"a{j}", 8) for j in range(k)]
                suf = [z3.BitVec(f"s{j}", 8) for j in range(m)]
                D = pre + pv + suf
                L = 4 * ((len(D) + 2) // 3)
                E = [b64model.sextet_of(D, j) for j in range(L)]
                V = val_terms[k % 3]
                if len(V) == 0:
                    continue
                if len(V) > L:
                    conj = [z3.BoolVal(True)]
                else:
                    conj = [z3.Or([V[t] != E[pos + t] for t in range(len(V))]) for pos in range(L - len(V) + 1)]
                s.push()
                s.add(z3.And(conj))
                t0 = time.perf_counter()
                r = s.check()
                solver_s += time.perf_counter() - t0
                queries += 1
                if str(r) == "sat":
                    mdl = s.model()
                    gb = lambda xs: bytes(mdl.eval(x, model_completion=True).as_long() for x in xs)
                    pb = gb(pv)
                    try:
                        ptxt = pb.decode("utf-8")
                    except UnicodeDecodeError:
                        ptxt = payload
                    s.pop()
                    s.pop()
                    return res("counterexample", cex_args=[ptxt, gb(pre).hex(), gb(suf).hex()], message=f"profile {profile} k={k} m={m}")
                if str(r) != "unsat":
                    s.pop()
                    s.pop()
                    return res("inconclusive", message=f"z3 returned {r} (profile {profile}, k={k}, m={m})")
                s.pop()
        s.pop()
        if len(samples) < 5:
            samples.append({"profile_utf8_widths": list(profile), "value_lengths": [len(t) for t in toks], "queries": "36: exists payload,prefix[k],suffix[m]: value[k%3] not a substring of b64(prefix+payload+suffix)", "result": "all unsat"})
    if unmodelled:
        return res("inconclusive", message="code under test left the modelled API: " + "; ".join(unmodelled)[:300])
    # vacuity guard: a wrong alignment (value for (k+1)%3) must be refutable
    toks, n = _token_values("abc", "base64offset")
    pv = [z3.BitVec(f"p{j}", 8) for j in range(3)]
    V = [b64model.char_term(ch, pv) for ch in toks[1]]
    D = pv
    E = [b64model.sextet_of(D, j) for j in range(4)]
    g = z3.Solver()
    g.add(z3.And([z3.Or([V[t] != E[pos + t] for t in range(len(V))]) for pos in range(4 - len(V) + 1)]))
    queries += 1
    if str(g.check()) != "sat":
        return res("error", message="vacuity guard failed")
    return res("confirmed", message=f"b64 model validated on {nval} inputs")


def c04a_base64(tmo: float) -> dict:
    """base64 modifier: value == Base64(payload bytes), all characters, in order, with padding."""
    import z3

    from stubs import b64model

    b64model.validate()
    profiles = _profiles(3, 30)
    queries = 0
    solver_s = 0.0
    samples = []
    for profile in profiles:
        payload = "".join(W[w] for w in profile)
        try:
            toks, n = _token_values(payload, "base64")
            if len(toks) != 1:
                raise ValueError("expected one value")
        except Exception as e:
            real = SigmaDetectionItem.from_mapping("f|base64", payload).value
            ok = len(real) == 1 and "".join(real[0].s) == base64.b64encode(payload.encode()).decode()
            if not ok:
                return {"verdict": "counterexample", "paths": len(profiles), "solver_queries": queries, "cex_args": [payload], "message": f"token execution not possible ({e!r}); concrete probe fails"}
            return {"verdict": "inconclusive", "paths": len(profiles), "solver_queries": queries, "message": f"code left the modelled API: {e!r}"}
        pv = [z3.BitVec(f"p{j}", 8) for j in range(n)]
        V = [b64model.char_term(ch, pv) for ch in toks[0]]
        L = 4 * ((n + 2) // 3)
        E = [b64model.sextet_of(pv, j) for j in range(L)]
        g = z3.Solver()
        if len(V) != L:
            return {"verdict": "counterexample", "paths": len(profiles), "solver_queries": queries, "cex_args": [payload], "message": "length differs"}
        g.add(z3.Or([V[t] != E[t] for t in range(L)]))
        t0 = time.perf_counter()
        r = g.check()
        solver_s += time.perf_counter() - t0
        queries += 1
        if str(r) == "sat":
            return {"verdict": "counterexample", "paths": len(profiles), "solver_queries": queries, "cex_args": [payload], "message": f"profile {profile}"}
        if str(r) != "unsat":
            return {"verdict": "inconclusive", "paths": len(profiles), "solver_queries": queries, "message": str(r)}
        if len(samples) < 3:
            samples.append({"profile_utf8_widths": list(profile), "result": "unsat"})
    return {"verdict": "confirmed", "paths": len(profiles), "solver_queries": queries, "solver_s": round(solver_s, 3), "samples": samples}


def c04a_base64_replay(payload: str) -> bool:
    if P("TWIN", 0):
        return False
    real = SigmaDetectionItem.from_mapping("f|base64", payload).value
    return len(real) == 1 and "".join(real[0].s) == base64.b64encode(payload.encode()).decode()


# ---------------------------------------------------------------- b. codecs, E1 over character classes
# representative literal characters, written in Sigma source form (escaped where necessary)
CLASSES = [
    ("a", "a"), ("Z", "Z"), ("0", "0"), (" ", " "), ("\n", "\n"), ("\t", "\t"), ("\r", "\r"), ("\x00", "\x00"), ("\x7f", "\x7f"),
    ("\\*", "*"), ("\\?", "?"), ("\\\\", "\\"), ("%", "%"), ("-", "-"), ("/", "/"), ("=", "="),
    ("é", "é"), ("ÿ", "ÿ"), ("Ā", "Ā"), ("က", "က"), ("⨀", "⨀"), ("퟿", "퟿"), ("﻿", "﻿"),
    ("\U00010000", "\U00010000"), ("\U0010ffff", "\U0010ffff"),
]
CHAINS = ["wide", "utf16be", "utf16", "base64", "wide|base64", "utf16be|base64", "utf16|base64", "base64offset", "wide|base64offset", "utf16be|base64offset"]
NCLS = len(CLASSES)


def _expected_bytes(codec: str, lit: str):
    if codec in ("wide", "utf16le"):
        return lit.encode("utf-16le")
    if codec == "utf16be":
        return lit.encode("utf-16be")
    if codec == "utf16":
        return b"\xff\xfe" + lit.encode("utf-16le")
    return lit.encode("utf-8")


def _codec_check(src: str, lit: str, chain: str) -> bool:
    parts = chain.split("|")
    codec = parts[0] if parts[0] in ("wide", "utf16le", "utf16be", "utf16") else None
    last = parts[-1] if parts[-1] in ("base64", "base64offset") else None
    try:
        item = SigmaDetectionItem.from_mapping("f|" + chain, src)
    except SigmaValueError:
        # rejecting is the only alternative outcome - and only wide/utf16le may reject (non-ASCII)
        return codec in ("wide", "utf16le", "utf16be", "utf16") and not lit.isascii()
    exp = _expected_bytes(codec, lit) if codec else lit.encode("utf-8")
    if codec == "utf16" and excluded("utf16-bom-as-utf8", True):
        exp = b"\xef\xbb\xbf" + lit.encode("utf-16le")  # known finding: BOM emitted as U+FEFF character
    vals = item.value
    if last is None:
        return len(vals) == 1 and isinstance(vals[0], SigmaString) and bytes(vals[0]) == exp
    if last == "base64":
        return len(vals) == 1 and "".join(vals[0].s) == base64.b64encode(exp).decode()
    # base64offset: the payload bytes `exp` at alignment k inside context bytes
    if len(vals) != 1 or not isinstance(vals[0], SigmaExpansion) or len(vals[0].values) != 3:
        return False
    for k in range(3):
        for ctx in (b"\xff", b"\x00", b"z"):
            for m in range(3):
                enc = base64.b64encode(ctx * k + exp + ctx * m).decode()
                text = "".join(vals[0].values[k].s)
                if text not in enc:
                    return False
    return True


def c04b_codec(n: int, k0: int, k1: int, k2: int) -> bool:
    """
    pre: 1 <= n <= P("LEN", 2)
    pre: 0 <= k0 < NCLS and 0 <= k1 < NCLS and 0 <= k2 < NCLS
    post: _
    """
    ks = [k0, k1, k2]
    src = ""
    lit = ""
    for i in range(3):
        if i < n:
            for j in range(NCLS):
                if ks[i] == j:
                    src += CLASSES[j][0]
                    lit += CLASSES[j][1]
        elif ks[i] != 0:
            return True
    chain = CHAINS[P("CHAIN", 0)]
    with concrete_section():
        ok = _codec_check(src, lit, chain)
    return fin(ok)


def c04b_codec_text(src: str, lit: str, chain: str) -> bool:
    return _codec_check(src, lit, chain)


def c04b_codec_strict_utf16(lit: str) -> bool:
    """Witness form for known finding utf16-bom-as-utf8: the strict oracle (BOM bytes FF FE)."""
    item = SigmaDetectionItem.from_mapping("f|utf16", lit)
    return bytes(item.value[0]) == b"\xff\xfe" + lit.encode("utf-16le")


# ---------------------------------------------------------------- c. long payloads
def c04c_long(n: int, kind: int) -> bool:
    """
    pre: 0 <= n <= 150
    pre: 0 <= kind < 2
    post: _
    """
    nn = 0
    for j in range(151):
        if n == j:
            nn = j
    kk = 1 if kind == 1 else 0
    chain = CHAINS[P("CHAIN", 3)]
    with concrete_section():
        lit = ("a" * nn) if kk == 0 else ("Ab1 /-\n"[: nn % 8] + "xyz" * (nn // 3))[:nn]
        ok = _codec_check(lit, lit, chain)
    return fin(ok)


OBLIGATIONS = (
    [
        Ob("c04a_offset", {}, 600, kind="z3", twin=False, replay_fn="c04a_offset_replay"),
        Ob("c04a_offset", {"DEEP": 1}, 3000, kind="z3", twin=False, replay_fn="c04a_offset_replay", tier="thorough"),
        Ob("c04a_base64", {}, 300, kind="z3", twin=False, replay_fn="c04a_base64_replay"),
    ]
    + [Ob("c04b_codec", {"LEN": 2, "CHAIN": c}, 300) for c in range(len(CHAINS))]
    + [Ob("c04b_codec", {"LEN": 3, "CHAIN": c}, 1800, tier="thorough") for c in range(len(CHAINS))]
    + [Ob("c04c_long", {"CHAIN": c}, 300) for c in (3, 4, 5, 7, 8)]
)

SELFCHECKS = [
    ("c04a_offset_replay", {}, ("foobar", "", ""), True),
    ("c04a_offset_replay", {}, ("က\U00010000", "ff", "00"), True),
    ("c04a_offset_replay", {}, ("aa", "2020", "ff"), True),
    ("c04a_base64_replay", {}, ("foobar",), True),
    ("c04b_codec_text", {}, ("a\\*b", "a*b", "base64"), True),
    ("c04b_codec_text", {}, ("foo", "foo", "wide|base64offset"), True),
]
