"""C01 - converted query is logically equivalent to the Sigma rule.

Engine E1 (+ solver-decided boolean equivalence).  A rule document is assembled from symbolic
selectors (detection kinds from a pool covering maps, lists of maps, value lists, keyword lists,
|all, |neq, null, exists, regex, cidr, windash expansion, cased, numbers, compare, fieldref;
condition: flat expression with and/or/not/one parenthesised span).  The real pipeline
SigmaRule.from_dict -> Backend.convert_rule runs on it with the verification backend
(/verif/backends/vbackend.py: only class attributes, every convert_* method is the library's), the
emitted query is parsed back by /verif/ref/querylang.py with the configured target precedence, and
compared with the reference semantics of the *source document* (/verif/ref/spec_eval.py): both are
formulas over canonical atomic predicates; they are evaluated with non-forking operators on
CrossHair's symbolic bools, so the solver decides equivalence over ALL truth assignments per shape.
Leaf rendering (string operator selection) is checked with a symbolic value string.
"""
from backends.vbackend import CONFIGS, make_backend
from ref import querylang as Q
from ref import spec_eval as S
from ref.sigmastr import M, ref_parse
from sigma.conditions import ConditionAND, ConditionFieldEqualsValueExpression, ConditionNOT, ConditionOR
from sigma.conversion.state import ConversionState
from sigma.exceptions import SigmaError
from sigma.rule import SigmaRule
from sigma.types import SigmaCasedString, SigmaString
from vlib.known import excluded, is_open
from vlib.obl import Ob
from vlib.params import P, concrete_section, fin, sel, selb

PROPERTY = "C01"
TARGETS = [
    "sigma.conversion.base:Backend.convert_rule",
    "sigma.conversion.base:Backend.convert_condition",
    "sigma.conversion.base:Backend.convert_condition_field_eq_val",
    "sigma.conversion.base:Backend.convert_condition_field_eq_expansion",
    "sigma.conversion.base:Backend.convert_condition_field_eq_val_exists",
    "sigma.conversion.base:Backend.decide_convert_condition_as_in_expression",
    "sigma.conversion.base:TextQueryBackend.compare_precedence",
    "sigma.conversion.base:TextQueryBackend.convert_condition_group",
    "sigma.conversion.base:TextQueryBackend.convert_condition_or",
    "sigma.conversion.base:TextQueryBackend.convert_condition_and",
    "sigma.conversion.base:TextQueryBackend.convert_condition_not",
    "sigma.conversion.base:TextQueryBackend.convert_condition_as_in_expression",
    "sigma.conversion.base:TextQueryBackend.convert_condition_field_eq_val_str",
    "sigma.conversion.base:TextQueryBackend.convert_condition_field_eq_val_str_case_sensitive",
    "sigma.conversion.base:TextQueryBackend.convert_condition_field_eq_val_cidr",
    "sigma.conversion.base:TextQueryBackend.not_equals_context_manager",
    "sigma.rule.detection:SigmaDetectionItem.postprocess",
    "sigma.rule.detection:SigmaDetection.postprocess",
]
BOUNDS = {
    "rule shapes": "conditions with 1..3 operands (quick: 2 operands over the full 26-entry detection pool, 3 operands over a 6-entry sub-pool), 0..1 'not' per operand, and/or, one optional (negated) parenthesised span; each operand one of the pool detections",
    "configurations": "13 backend configurations (6 target precedence orders, parenthesize, in-list off / with wildcards, no string operators, native CIDR, no explicit not-exists, NOT as not-equals)",
    "leaf rendering": "symbolic value string len <= 3 over full Unicode x 4 operator-availability configurations x plain/cased",
    "truth assignments": "all (symbolic, decided by the solver per shape)",
    "outside": "deeper nesting than one parenthesised span; backends that override convert_* methods; deferred expressions; more than two conditions per rule",
}
ASSUMPTIONS = [
    "stub: SigmaRegularExpression.compile is a no-op inside c01b_strop (validity check of the unused {regex} template variable)",
    "target language semantics = /verif/ref/querylang.py (precedence climbing with the backend's configured precedence; left associative)",
    "atoms with different (kind, field, decoded value) are independent predicates; adjacent multi-wildcards are normalised ('**' == '*')",
]

POOL = [
    {"f0": "v0"},
    {"f1": "v1", "f2": "v2"},
    [{"f3": "v3"}, {"f4": "v4"}],
    {"f5": ["v5", "v6"]},
    {"f7|all": ["v7", "v8"]},
    {"f9|windash": "-x"},
    ["k0", "k1"],
    {"f10": None},
    {"f11|contains": "v11"},
    {"f12|re": "v.*12"},
    {"f13|cidr": "10.0.0.0/7"},
    {"f14|cased": ["v14", "v15"]},
    {"f15": ["v1*", 5]},
    {"f16|exists": False},
    {"f17|gt": 5},
    {"f18|fieldref": "f0"},
    {"f19|neq": "v19"},
    {"f20|contains|all": ["a", "b"]},
    {"f21": 7, "f22|endswith": "z"},
    {"f23|cased|endswith": "v23"},
    {"f24|cased|contains": "v24"},
    {"f25|startswith|cased": "v25"},
    {"f26|contains": ["p*q", "r"]},
    {"f27|re|i": "a+b"},
    {"f28|base64offset|contains": "\u00fcb"},
    {"f29|wide|base64": "ab"},
]
SUBPOOL = [0, 1, 2, 3, 5, 6]
POOLS = {0: list(range(len(POOL))), 1: SUBPOOL, 2: [0, 2], 3: [0, 3], 4: [0, 1, 2, 5], 5: [0, 8, 9]}  # selectable operand pools (VERIF_PL0..2)
NATOMS = 24
PREC_NAMES = {ConditionNOT: "not", ConditionAND: "and", ConditionOR: "or"}


def convert_and_parse(doc, cfg: int):
    """-> (status, real formulas, reference formulas)   status in {"cmp", "bad:<why>"}"""
    Q.LENIENT_CIDR_FIELD = is_open("c01-native-cidr-field-not-quoted")
    b = make_backend(cfg)
    native = b.cidr_expression is not None
    ref = S.formula_of_rule(doc, native)
    try:
        rule = SigmaRule.from_dict(doc)
        queries = b.convert_rule(rule)
    except SigmaError as e:
        return "bad:conversion raised " + type(e).__name__ + ": " + str(e)[:80], None, None
    if len(queries) != len(ref):
        return "bad:number of queries", None, None
    prec = tuple(PREC_NAMES[c] for c in b.precedence)
    real = []
    for q in queries:
        try:
            real.append(Q.parse(q, prec))
        except Q.QuerySyntaxError as e:
            return f"bad:query does not parse back ({e}): {q!r}", None, None
    return "cmp", real, ref


def decide(doc, cfg, atoms_sym=None) -> bool:
    """Equivalence of the parsed-back query and the reference semantics for ALL truth assignments,
    decided by one z3 query per condition (vlib.z3util.equivalent)."""
    from vlib.z3util import equivalent

    with concrete_section():
        st, real, ref = convert_and_parse(doc, cfg)
        if st != "cmp":
            return False
        for fr, fs in zip(real, ref):
            eq, witness = equivalent(fr, fs)
            if not eq:
                return False
    return True


def explain(doc, cfg):
    st, real, ref = convert_and_parse(doc, cfg)
    b = make_backend(cfg)
    try:
        q = b.convert_rule(SigmaRule.from_dict(doc))
    except Exception as e:
        q = repr(e)
    return st, q, real, ref


SPANS = {1: [None], 2: [None, (0, 1)], 3: [None, (0, 1), (1, 2)]}


SECOND = [None, "d0", "not d0", "not (d0 or d1)", "d1 and not d0"]


def build_doc(n, kinds, negs, ops, span, pneg, second=0):
    det = {}
    parts = []
    for i in range(n):
        det[f"d{i}"] = POOL[kinds[i]]
        if span is not None and i == span[0]:
            parts.append(("not " if pneg else "") + "(")
        parts.append(("not " if negs[i] else "") + f"d{i}")
        if span is not None and i == span[1]:
            parts.append(")")
        if i < n - 1:
            parts.append("and" if ops[i] == 0 else "or")
    det["condition"] = " ".join(parts).replace("( ", "(").replace(" )", ")")
    if second:
        det["condition"] = [det["condition"], SECOND[second]]
    return {"title": "t", "logsource": {"category": "c"}, "detection": det}


NEGATABLE_IN_NOT_EQ = (0, 8, 9)  # single item, single value, kind with a negated template


def kf_excluded(n, kinds, negs, span, pneg, cfg, second=0) -> bool:
    """Trigger regions of the open known findings of C01 (see /verif/known_findings.json)."""
    name = CONFIGS[cfg][0]
    native = "cidr_expression" in CONFIGS[cfg][1]
    # c01-cidr-expansion-not-grouped: a CIDR value that expands into several wildcard patterns is
    # emitted as bare 'a or b' whatever encloses it (AND, NOT)
    if is_open("c01-cidr-expansion-not-grouped") and not native:
        for i in range(n):
            if kinds[i] == 10 and (n > 1 or negs[i]):
                return True
    # c01-not-eq-mode: with convert_not_as_not_eq the negation is dropped for everything that has
    # no negated template and AND/OR connectives under NOT are kept (no De Morgan)
    if is_open("c01-not-eq-mode") and name == "not-eq":
        for i in range(n):
            negated = negs[i] or (span is not None and pneg and span[0] <= i <= span[1])
            if negated and kinds[i] not in NEGATABLE_IN_NOT_EQ:
                return True
        if span is not None and pneg:
            return True
        if any(k == 16 for k in kinds[:n]):
            return True
        if second == 2 and kinds[0] not in NEGATABLE_IN_NOT_EQ:
            return True
        if second == 3 or (second == 4 and kinds[0] not in NEGATABLE_IN_NOT_EQ):
            return True
    return False


def c01c_structure(k0: int, k1: int, k2: int, g0: bool, g1: bool, g2: bool, o0: bool, o1: bool, sp: int, pneg: bool, sc: int) -> bool:
    """
    pre: 0 <= k0 < len(POOLS[P("PL0", 0)]) and 0 <= k1 < len(POOLS[P("PL1", 1)]) and 0 <= k2 < len(POOLS[P("PL2", 2)])
    pre: P("K0LO", 0) <= k0 <= P("K0HI", 99)
    pre: 0 <= sp < len(SPANS[P("N", 2)])
    pre: P("N", 2) >= 3 or (k2 == 0 and not g2 and not o1)
    pre: P("N", 2) >= 2 or (k1 == 0 and not g1 and not o0)
    pre: sp != 0 or not pneg
    pre: 0 <= sc < (len(SECOND) if P("SC", 0) else 1)
    post: _
    """
    n = P("N", 2)
    cfg = P("CFG", 0)
    pools = [POOLS[P("PL0", 0)], POOLS[P("PL1", 1)], POOLS[P("PL2", 2)]]
    ks = [k0, k1, k2]
    kinds = []
    for i in range(3):
        if i >= n:
            if ks[i] != 0:
                return True
            kinds.append(pools[i][0])
        else:
            kinds.append(pools[i][sel(ks[i], len(pools[i]))])
    gs = [g0, g1, g2]
    negs = []
    for i in range(3):
        v = True if gs[i] else False
        if i >= n and v:
            return True
        negs.append(v)
    os_ = [o0, o1]
    ops = []
    for i in range(2):
        v = 1 if os_[i] else 0
        if i >= n - 1 and v:
            return True
        ops.append(v)
    span = SPANS[n][sel(sp, len(SPANS[n]))]
    pn = selb(pneg)
    if span is None and pn:
        return True
    second = sel(sc, len(SECOND))
    if kf_excluded(n, kinds, negs, span, pn, cfg, second):
        return True
    doc = build_doc(n, kinds, negs, ops, span, pn, second)
    return fin(decide(doc, cfg))


def c01_doc(doc_repr: str, cfg: int, bits: int) -> bool:
    """Concrete-instance form: python literal of the rule document, configuration, assignment bit mask."""
    import ast

    doc = ast.literal_eval(doc_repr)
    return decide(doc, cfg)


def c01_strict_timestamp_part_list(part: int, link_all: bool) -> bool:
    """Concrete regression witness (fixed finding c01-timestamp-part-list-folded): every value of a list under a
    timestamp part modifier is compared with the timestamp PART of the field, as a single value is."""
    from sigma.backends.test import TextQueryTestBackend
    from sigma.types import TimestampPart

    names = ["minute", "hour", "day", "week", "month", "year"]
    fmt = {TimestampPart.MINUTE: "%M", TimestampPart.HOUR: "%H", TimestampPart.DAY: "%d", TimestampPart.WEEK: "%V", TimestampPart.MONTH: "%m", TimestampPart.YEAR: "%Y"}
    cls = type("TSBackend", (TextQueryTestBackend,), {"field_timestamp_part_expression": 'strftime({field}, "{timestamp_part}")', "timestamp_part_mapping": fmt})
    key = "ts|" + names[part] + ("|all" if link_all else "")
    q = cls().convert_rule(SigmaRule.from_dict({"title": "t", "logsource": {"category": "c"}, "detection": {"sel": {key: [2, 3]}, "condition": "sel"}}))[0]
    single = cls().convert_rule(SigmaRule.from_dict({"title": "t", "logsource": {"category": "c"}, "detection": {"sel": {"ts|" + names[part]: 2}, "condition": "sel"}}))[0]
    fn = single.split("=")[0]
    return q == f"{fn}=2 " + ("and" if link_all else "or") + f" {fn}=3"


def c01_doc_all(doc_repr: str, cfg: int) -> bool:
    """Concrete-instance form over all assignments of the (few) atoms of a small document."""
    import ast

    doc = ast.literal_eval(doc_repr)
    st, real, ref = convert_and_parse(doc, cfg)
    if st != "cmp":
        return False
    keys = []
    for f in real + ref:
        Q.atoms_of(f, keys)
    for bits in range(2 ** len(keys)):
        env = {k: bool((bits >> i) & 1) for i, k in enumerate(keys)}
        for fr, fs in zip(real, ref):
            if Q.ev(fr, env) != Q.ev(fs, env):
                return False
    return True


def c01_cidr_field_strict() -> bool:
    """Witness form for known finding c01-native-cidr-field-not-quoted (strict parse-back)."""
    doc = {"title": "t", "logsource": {"category": "c"}, "detection": {"d0": {"f 13|cidr": "10.0.0.0/8"}, "condition": "d0"}}
    b = make_backend(10)
    q = b.convert_rule(SigmaRule.from_dict(doc))[0]
    return "\x02f 13\x02" in q


# ---------------------------------------------------------------- b. string operator selection on a symbolic value
STRCFG = [
    {},  # all operators available
    {"startswith_expression_allow_special": True, "endswith_expression_allow_special": True, "contains_expression_allow_special": True,
     "case_sensitive_startswith_expression_allow_special": True, "case_sensitive_endswith_expression_allow_special": True, "case_sensitive_contains_expression_allow_special": True},
    {"wildcard_match_expression": None},
    {"startswith_expression": None, "contains_expression": None, "case_sensitive_endswith_expression": None},
]


def _normtoks(toks):
    out = []
    for t in toks:
        if t == M and out and out[-1] == M:
            continue
        out.append(t)
    return tuple(out)


def c01b_strop(s: str, cased: bool) -> bool:
    """
    pre: len(s) <= P("LEN", 3)
    post: _
    """
    from sigma.types import SigmaRegularExpression

    b = make_backend(0, **STRCFG[P("SCFG", 0)])
    v = SigmaCasedString(s) if cased else SigmaString(s)
    cond = ConditionFieldEqualsValueExpression("f", v)
    saved = SigmaRegularExpression.compile
    SigmaRegularExpression.compile = lambda self: None  # stub: the {regex} template variable is computed for every string, re.compile() on symbolic text explodes
    try:
        text = b.convert_condition(cond, ConversionState())
    finally:
        SigmaRegularExpression.compile = saved
    if not (text.startswith("\x05") and text.endswith("\x06")):
        return fin(False)
    parts = text[1:-1].split("\x1f", 2)  # kind, field, value (the value may contain any character)
    if len(parts) != 3:
        return fin(False)
    f = Q.canon(parts[0], parts[1:])
    want = ("atom", ("glob", True if cased else False, "f", _normtoks(ref_parse(s))))
    return fin(f == want)


NCFG = len(CONFIGS)
OBLIGATIONS = (
    # default configuration: every pool detection as first operand x sub-pool as second, split by first operand
    [Ob("c01c_structure", {"N": 2, "PL0": 0, "PL1": 1, "CFG": 0, "K0LO": lo, "K0HI": lo + 4}, 600) for lo in (0, 5, 10, 15, 20)]
    # every other configuration: sub-pool x sub-pool
    + [Ob("c01c_structure", {"N": 2, "PL0": 4, "PL1": 4, "CFG": c}, 600) for c in range(1, 7)]
    + [Ob("c01c_structure", {"N": 2, "PL0": 1, "PL1": 1, "CFG": c}, 600) for c in range(7, NCFG)]
    + [Ob("c01c_structure", {"N": 2, "PL0": 1, "PL1": 1, "CFG": c}, 1200, tier="thorough") for c in range(1, 7)]
    # configurations that change leaf/in-list/cidr/not handling: every pool detection against two partners
    + [Ob("c01c_structure", {"N": 2, "PL0": 0, "PL1": 3, "CFG": c}, 600) for c in (7, 8, 10, 12)]
    + [Ob("c01c_structure", {"N": 2, "PL0": 0, "PL1": 3, "CFG": c}, 1200, tier="thorough") for c in (9, 11)]
    # NOT-as-not-equals: a negated simple leaf converted before every other kind (template swap / restore)
    + [Ob("c01c_structure", {"N": 2, "PL0": 5, "PL1": 0, "CFG": 12}, 600)]
    # several conditions per rule over shared detections
    + [Ob("c01c_structure", {"N": 2, "PL0": 4, "PL1": 4, "CFG": c, "SC": 1}, 600) for c in (0, 12)]
    + [Ob("c01c_structure", {"N": 2, "PL0": 1, "PL1": 1, "CFG": c, "SC": 1}, 3000, tier="thorough") for c in range(NCFG)]
    # three operands (precedence between and/or at the top level) over a two-entry pool
    + [Ob("c01c_structure", {"N": 3, "PL0": 2, "PL1": 2, "PL2": 2, "CFG": c}, 600) for c in (0, 1, 3, 5)]
    + [Ob("c01c_structure", {"N": 3, "PL0": 2, "PL1": 2, "PL2": 2, "CFG": c}, 1200, tier="thorough") for c in (2, 4, 6)]
    + [Ob("c01c_structure", {"N": 3, "PL0": 4, "PL1": 4, "PL2": 4, "CFG": c}, 3000, tier="thorough") for c in range(NCFG)]
    + [Ob("c01c_structure", {"N": 2, "PL0": 0, "PL1": 0, "CFG": c, "K0LO": lo, "K0HI": lo + 4}, 3000, tier="thorough") for c in range(NCFG) for lo in (0, 5, 10, 15, 20)]
    + [Ob("c01b_strop", {"SCFG": c, "LEN": 2}, 600) for c in range(len(STRCFG))]
    + [Ob("c01b_strop", {"SCFG": c, "LEN": 3}, 3000, tier="thorough") for c in range(len(STRCFG))]
)

SELFCHECKS = [
    ("c01_strict_timestamp_part_list", {}, (1, False), True),
    ("c01_strict_timestamp_part_list", {}, (5, True), True),
    ("c01_doc_all", {}, (repr({"title": "t", "logsource": {"category": "c"}, "detection": {"a": {"f": "x"}, "b": {"g": ["y", "z"]}, "condition": "a and not b"}}), 0), True),
    ("c01_doc_all", {}, (repr({"title": "t", "logsource": {"category": "c"}, "detection": {"a": {"f|contains": "x"}, "b": ["k"], "c": {"h": 1}, "condition": "a or b and c"}}), 3), True),
]
