"""C18 - CIDR expansion matches exactly the addresses of the network.

a. IPv4 (engine E2, term-stub + z3): the real SigmaCIDRExpression.expand() runs on a token model
   of ipaddress.IPv4Network; for each of the 33 prefix lengths one z3 query over ALL aligned
   network addresses (32 bit) x ALL probe addresses (32 bit) decides
        (number of produced patterns that match X) == (1 if X inside network else 0)
   i.e. exactness, completeness and non-redundancy at once.
b. native CIDR expression values (engine E1, selectors -> concrete ipaddress per path).
c. invalid strings are rejected (engine E1, symbolic str, search-grade).
d. IPv6 bounded family (engine E1, selectors): canonical text of first / last / interior
   addresses of every subnet is matched by a produced pattern.
"""
import ipaddress
import time

from ref.sigmastr import glob_match, ref_parse
from sigma.exceptions import SigmaTypeError
from sigma.types import SigmaCIDRExpression
from vlib.known import excluded
from vlib.obl import Ob
from vlib.params import P, concrete_section, fin

PROPERTY = "C18"
TARGETS = [
    "sigma.types:SigmaCIDRExpression.expand",
    "sigma.types:SigmaCIDRExpression.__post_init__",
    "sigma.conversion.base:TextQueryBackend.convert_condition_field_eq_val_cidr",
]
BOUNDS = {
    "IPv4": "all 33 prefix lengths; network address and probe address unbounded (full 32 bit each)",
    "IPv6": "prefix lengths 0..128 x zero/non-zero mask over the 8 groups (quick: groups 0..3 free, groups 4..7 one of 4 layouts; thorough: all 8 free); probes: first, last and one interior address of each produced subnet - NOT every address (outside the claim)",
    "invalid strings": "every Unicode string with len <= 4 (search-grade, not expected to exhaust)",
    "outside": "IPv6 universal claim over all addresses; matching semantics of the target language other than glob on the canonical text",
}
ASSUMPTIONS = [
    "stub: ipaddress.IPv4Network replaced by stubs.netmodel.TokNet (validated against ipaddress on concrete networks at the start of every run)",
    "a glob pattern 'g0.g1.*' matches a dotted quad iff the leading groups are equal as decimal octets (decimal octet text is canonical); replayed counterexamples use the real text + reference glob matcher",
]


# ---------------------------------------------------------------- a. IPv4, E2
def _token_patterns(p: int):
    from stubs.netmodel import TokNet

    c = SigmaCIDRExpression("0.0.0.0/0")
    c.network = TokNet(p)
    return c.expand()


def _concretise(pats, A: int):
    from stubs.netmodel import is_token, token_key

    conc = []
    for pat in pats:
        s = ""
        for ch in pat:
            if is_token(ch):
                off, g = token_key(ch)
                s += str(((A | off) >> (24 - 8 * g)) & 0xFF)
            else:
                s += ch
        conc.append(s)
    return conc


_BASES = (0x0A141E28, 0xC0A8FFFF, 0xFFFFFFFF, 0x00000000, 0x7F5A3C01)


def _validate_stub():
    """Differential check of the token model against the real ipaddress-backed expand()."""
    samples = 0
    for p in range(33):
        try:
            pats = _token_patterns(p)
        except Exception:
            continue  # code left the modelled API: handled per prefix in c18a_ipv4
        for base in _BASES:
            A = base & (((1 << 32) - 1) ^ ((1 << (32 - p)) - 1))
            real = SigmaCIDRExpression(f"{ipaddress.IPv4Address(A)}/{p}").expand()
            conc = _concretise(pats, A)
            if conc != real:
                raise AssertionError(f"token model disagrees with ipaddress for {A:#x}/{p}: {conc} vs {real}")
            samples += 1
    return samples


def _concrete_fallback(p: int):
    """Used only when the code under test leaves the modelled API or emits text the token decoder
    cannot read: look for a replayable counterexample on boundary probes of concrete networks."""
    for base in _BASES:
        a = base & (((1 << 32) - 1) ^ ((1 << (32 - p)) - 1))
        lo, hi = a, a + (1 << (32 - p)) - 1
        for x in (lo, hi, (lo + hi) // 2, (lo - 1) % 2**32, (hi + 1) % 2**32, lo + 1 if hi > lo else lo, hi - 1 if hi > lo else hi):
            try:
                ok = c18a_ipv4_replay(p, a, x)
            except Exception:
                ok = False
            if not ok:
                return [p, a, x]
    return None


def c18a_ipv4(tmo: float) -> dict:
    import z3

    from stubs.netmodel import decode_pattern, octet_term

    nval = _validate_stub()
    A = z3.BitVec("A", 32)
    X = z3.BitVec("X", 32)
    queries = 0
    solver_s = 0.0
    samples = []
    unmodelled = []
    plist = list(range(33))

    def build(p, pats, drop_last=False):
        hostmask = (1 << (32 - p)) - 1
        s = z3.Solver()
        s.set("timeout", int(tmo * 1000 / 40))
        s.add(A & z3.BitVecVal(hostmask, 32) == 0)
        matches = []
        for pat in pats[:-1] if drop_last else pats:
            toks, wc = decode_pattern(pat)
            conj = [z3.Extract(31 - 8 * pos, 24 - 8 * pos, X) == octet_term(A, off, g) for pos, (off, g) in enumerate(toks)]
            matches.append(z3.And(conj) if conj else z3.BoolVal(True))
        cnt = z3.Sum([z3.If(m, 1, 0) for m in matches]) if matches else z3.IntVal(0)
        inside = (X & z3.BitVecVal(((1 << 32) - 1) ^ hostmask, 32)) == A
        s.add(cnt != z3.If(inside, 1, 0))
        return s

    def res(verdict, **kw):
        d = {"verdict": verdict, "paths": len(plist), "solver_queries": queries, "solver_s": round(solver_s, 3), "samples": samples}
        d.update(kw)
        return d

    for p in plist:
        try:
            pats = _token_patterns(p)
            s = build(p, pats)
        except Exception as e:
            cex = _concrete_fallback(p)
            if cex is not None:
                return res("counterexample", cex_args=cex, message=f"prefix {p}: token execution not possible ({e!r}); concrete boundary probe fails")
            unmodelled.append(f"/{p}: {e!r}")
            continue
        t = time.perf_counter()
        r = s.check()
        solver_s += time.perf_counter() - t
        queries += 1
        if len(samples) < 4:
            samples.append({"prefixlen": p, "patterns": len(pats), "query": "exists A,X: #matching(patterns,X) != [X in A/p]", "result": str(r)})
        if str(r) == "sat":
            m = s.model()
            a = m.eval(A, model_completion=True).as_long()
            x = m.eval(X, model_completion=True).as_long()
            return res("counterexample", cex_args=[p, a, x], message=f"prefix {p}: network {ipaddress.IPv4Address(a)}/{p}, probe {ipaddress.IPv4Address(x)}")
        if str(r) != "unsat":
            return res("inconclusive", message=f"z3 returned {r} for prefix {p}")
    if unmodelled:
        return res("inconclusive", message="code under test left the modelled IPv4Network API: " + "; ".join(unmodelled)[:300])
    # vacuity guard: the same query with one produced pattern dropped must be satisfiable
    s = build(21, _token_patterns(21), drop_last=True)
    queries += 1
    if str(s.check()) != "sat":
        return res("error", message="vacuity guard failed: query with a dropped pattern is not satisfiable")
    return res("confirmed", message=f"stub validated on {nval} concrete networks")


def c18a_ipv4_replay(p: int, a: int, x: int) -> bool:
    """Replay of a z3 model through the real, ipaddress-backed public API."""
    if P("TWIN", 0):
        return False
    cidr = f"{ipaddress.IPv4Address(a)}/{p}"
    pats = SigmaCIDRExpression(cidr).expand()
    subject = str(ipaddress.IPv4Address(x))
    n = sum(1 for pat in pats if glob_match(ref_parse(pat), subject))
    inside = ipaddress.IPv4Address(x) in ipaddress.ip_network(cidr)
    return n == (1 if inside else 0)


def c18a_ipv4_concrete(p: int, b0: int, b1: int, b2: int, b3: int) -> bool:
    """Concrete-instance form of (a) used by self-checks."""
    a = ((b0 << 24) | (b1 << 16) | (b2 << 8) | b3) & (((1 << 32) - 1) ^ ((1 << (32 - p)) - 1))
    ok = True
    lo = a
    hi = a + (1 << (32 - p)) - 1
    for x in {lo, hi, (lo + hi) // 2, (lo - 1) % 2**32, (hi + 1) % 2**32, 0, 2**32 - 1}:
        ok = ok and c18a_ipv4_replay(p, a, x)
    return ok


# ---------------------------------------------------------------- b. native expression, E1
def c18b_native(p: int, cls: int, host: bool, form: int) -> bool:
    """
    pre: 0 <= p <= 32
    pre: 0 <= cls < 4
    pre: 0 <= form < 3
    post: _
    """
    from sigma.backends.test import TextQueryTestBackend
    from sigma.conditions import ConditionFieldEqualsValueExpression
    from sigma.conversion.state import ConversionState

    bases = [0x0A000000, 0xC0A80100, 0xFFFFFFFF, 0x00000000]
    pp = 0
    for j in range(33):  # selector -> concrete value (ipaddress cannot run on symbolic ints)
        if p == j:
            pp = j
    cc = 0
    for j in range(4):
        if cls == j:
            cc = j
    hh = True if host else False
    ff = 0
    for j in range(3):
        if form == j:
            ff = j
    with concrete_section():
        return fin(_native(pp, cc, hh, ff))


V6_FORMS = ["1234:5678:0000:AB00::/56", "2001:0DB8:0:0:0:0:0:0/32", "::1", "FE80::/10", "2001:db8::/48"]


def c18b_native_v6(form: int) -> bool:
    """
    pre: 0 <= form < 5
    post: _
    """
    ff = 0
    for j in range(5):
        if form == j:
            ff = j
    with concrete_section():
        return fin(_native_text(V6_FORMS[ff]))


def _native_text(text: str) -> bool:
    from sigma.backends.test import TextQueryTestBackend
    from sigma.conditions import ConditionFieldEqualsValueExpression
    from sigma.conversion.state import ConversionState

    b = TextQueryTestBackend()
    b.cidr_expression = "CIDR\x00{field}\x00{value}\x00{network}\x00{prefixlen}\x00{netmask}"
    cond = ConditionFieldEqualsValueExpression("f", SigmaCIDRExpression(text))
    out = b.convert_condition_field_eq_val_cidr(cond, ConversionState())
    parts = out.split("\x00")
    net = ipaddress.ip_network(text)
    return parts == ["CIDR", "f", str(net), str(net.network_address), str(net.prefixlen), str(net.netmask)]


def _native(pp: int, cc: int, host: bool, form: int = 0) -> bool:
    from sigma.backends.test import TextQueryTestBackend
    from sigma.conditions import ConditionFieldEqualsValueExpression
    from sigma.conversion.state import ConversionState

    bases = [0x0A000000, 0xC0A80100, 0xFFFFFFFF, 0x00000000]
    base = bases[cc] & (((1 << 32) - 1) ^ ((1 << (32 - pp)) - 1))
    text = f"{ipaddress.IPv4Address(base)}/{pp}"
    if host and pp < 32:
        # a host address inside the network is not a network: must be rejected, not normalised silently
        try:
            SigmaCIDRExpression(f"{ipaddress.IPv4Address(base | 1)}/{pp}")
        except SigmaTypeError:
            return True
        return False
    if form == 1:  # netmask notation
        text = f"{ipaddress.IPv4Address(base)}/{ipaddress.ip_network(text).netmask}"
    elif form == 2:  # hostmask notation; bare address for /32
        text = str(ipaddress.IPv4Address(base)) if pp == 32 else f"{ipaddress.IPv4Address(base)}/{ipaddress.ip_network(text).hostmask}"
        if pp == 0:
            text = f"{ipaddress.IPv4Address(base)}/0"
    return _native_text(text)


# ---------------------------------------------------------------- c. invalid strings, E1 (search)
def c18c_invalid(s: str) -> bool:
    """
    pre: len(s) <= P("LEN", 4)
    post: _
    """
    try:
        c = SigmaCIDRExpression(s)
    except SigmaTypeError:
        return fin(True)
    # accepted: must denote a network whose text parses back to the same network
    return fin(ipaddress.ip_network(str(c.network)) == c.network)


# ---------------------------------------------------------------- d. IPv6 family, E1
def kf_v6_first_is_prefix_of_last(net) -> bool:
    """Trigger of known finding ipv6-first-address-text-prefix-of-last: for some nibble-aligned
    subnet the text of the first address is a proper prefix of the text of the last address
    (e.g. '2001:db8::' / '2001:db8::ff'), so expand() finds no differing character and emits the
    single network address as pattern."""
    diff = (4 - net.prefixlen % 4) % 4
    for sub in net.subnets(diff):
        f = str(sub.network_address)
        l = str(sub.broadcast_address)
        if f != l and l.startswith(f):
            return True
    return False


def _v6_check(net: ipaddress.IPv6Network) -> bool:
    pats = SigmaCIDRExpression(str(net)).expand()
    diff = (4 - net.prefixlen % 4) % 4
    subs = list(net.subnets(diff))
    if len(pats) != len(subs):
        return False
    for sub in subs:
        lo = int(sub.network_address)
        hi = int(sub.broadcast_address)
        probes = {lo, hi, lo + (hi - lo) // 2, lo + (hi - lo) // 3, min(hi, lo + 1), max(lo, hi - 1), lo | (hi & 0x0001000100010001)}
        for m in (0x01, 0x80, 0x81, 0x18, 0x55, 0xAA, 0x03, 0xC0, 0x11):  # host parts with zero runs in different places
            hv = 0
            for g in range(8):
                hv = (hv << 16) | (1 if (m >> g) & 1 else 0)
            probes.add(lo | (hv & (hi - lo)))
        for x in probes:
            subject = str(ipaddress.IPv6Address(x))
            if not any(glob_match(ref_parse(pat), subject) for pat in pats):
                return False
    return True


def c18d_ipv6(p: int, m0: bool, m1: bool, m2: bool, m3: bool, m4: bool, m5: bool, m6: bool, m7: bool) -> bool:
    """
    pre: P("PLO", 0) <= p <= P("PHI", 128)
    post: _
    """
    pp = 0
    for j in range(129):
        if p == j:
            pp = j
    ms = [m0, m1, m2, m3, m4, m5, m6, m7]
    if not P("FULL", 0):
        # quick tier: groups 4..7 follow one of four zero/non-zero layouts chosen by (m4, m5)
        if m6 or m7:
            return True
        lay = [[False] * 4, [True] * 4, [True, False, True, False], [False, True, False, True]][(2 if m4 else 0) + (1 if m5 else 0)]
        if (pp + 15) // 16 <= 4 and (m4 or m5):
            return True
        ms = [m0, m1, m2, m3] + [lay[g - 4] and g < (pp + 15) // 16 for g in range(4, 8)]
    vals = [0x2001, 0xDB8, 0x1A, 0xF00, 0x1, 0xABCD, 0x10, 0xFF00]
    ngroups = (pp + 15) // 16  # groups that contain prefix bits; the others are masked to zero anyway
    groups = []
    for g in range(8):
        if ms[g]:
            if g >= ngroups:
                return True  # canonical representation: not a separate network
            groups.append(vals[g])
        else:
            groups.append(0)
    with concrete_section():
        v = 0
        for g in groups:
            v = (v << 16) | g
        v &= ((1 << 128) - 1) ^ ((1 << (128 - pp)) - 1)
        net = ipaddress.IPv6Network((v, pp))
        if excluded("ipv6-first-address-text-prefix-of-last", kf_v6_first_is_prefix_of_last(net)):
            return True
        ok = _v6_check(net)
    return fin(ok)


def c18d_ipv6_text(cidr: str) -> bool:
    """Concrete-instance form of (d) used by self-checks and known-finding witnesses."""
    return _v6_check(ipaddress.IPv6Network(cidr))


def c18d_ipv6_text_unlisted(cidr: str) -> bool:
    """Same, but instances inside the trigger region of the open known finding are skipped."""
    net = ipaddress.IPv6Network(cidr)
    if excluded("ipv6-first-address-text-prefix-of-last", kf_v6_first_is_prefix_of_last(net)):
        return True
    return _v6_check(net)


OBLIGATIONS = (
    [
        Ob("c18a_ipv4", {}, 300, kind="z3", twin=False, note="33 queries, each over all 2^32 aligned networks x 2^32 probes"),
        Ob("c18b_native", {}, 240),
        Ob("c18b_native_v6", {}, 120),
    ]
    + [Ob("c18d_ipv6", {"PLO": lo, "PHI": lo + 15}, 300) for lo in range(0, 128, 16)]
    + [Ob("c18d_ipv6", {"PLO": 128, "PHI": 128}, 120)]
    + [Ob("c18d_ipv6", {"PLO": lo, "PHI": lo + 7, "FULL": 1}, 1800, tier="thorough") for lo in range(64, 128, 8)]
    + [Ob("c18d_ipv6", {"PLO": 128, "PHI": 128, "FULL": 1}, 600, tier="thorough")]
    + [Ob("c18c_invalid", {"LEN": 4}, 600, tier="thorough", search=True)]
)

SELFCHECKS = [
    ("c18a_ipv4_concrete", {}, (24, 192, 168, 1, 0), True),
    ("c18a_ipv4_concrete", {}, (13, 10, 8, 0, 0), True),
    ("c18a_ipv4_concrete", {}, (0, 0, 0, 0, 0), True),
    ("c18a_ipv4_concrete", {}, (32, 1, 2, 3, 4), True),
    ("c18d_ipv6_text", {}, ("2001:db8::/32",), True),
    ("c18d_ipv6_text", {}, ("2001:db8::/48",), True),
    ("c18d_ipv6_text", {}, ("2001:db8:1:0::/64",), True),
    ("c18d_ipv6_text", {}, ("1234:5678:0:ab00::/56",), True),
    ("c18d_ipv6_text", {}, ("::1/128",), True),
    ("c18d_ipv6_text", {}, ("fe80::/10",), True),
]
