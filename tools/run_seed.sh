#!/bin/sh
# tools/run_seed.sh <seed-dir-name> [check args...] : apply a kept seeded change to /repo, run the
# property's quick check, undo the change straight afterwards; records the outcome in the seed dir.
set -u
D=/verif/seeded/$1; shift
P=$(basename $D | cut -d- -f1)
[ -z "$(git -C /repo status --porcelain)" ] || { echo "/repo not clean"; exit 2; }
git -C /repo apply $D/patch.diff || exit 2
./check $P "$@" > $D/check_output.txt 2>&1; RC=$?
git -C /repo checkout -- .
grep -E "^VIOLATION|violation:|HARNESS-ERROR|tier=" $D/check_output.txt | cut -c1-220
echo "exit=$RC" | tee -a $D/check_output.txt
