#!/usr/bin/env python3
"""Regenerates /verif/MANIFEST.json from the table below (keeps it schema-valid)."""
import json
import os

ROOT = os.path.dirname(os.path.dirname(os.path.abspath(__file__)))

TB = "CrossHair 0.0.110 proxy semantics; z3-solver wheel; the reference models in /verif/ref and the harness module; the stubs listed in the evidence file's assumptions. Bounded: nothing is claimed outside the bounds recorded in coverage.bounds."

# id -> (technique, level text, level note, design ref)
CHECKS = {
    "C05": (
        "bounded symbolic execution (CrossHair+z3) of SigmaString parse/to_plain/convert/to_regex/slicing and field/regex escaping vs reference decoders",
        "Every Unicode string up to the stated length is a symbolic str; the real parser, plain renderer, target renderer (7 escaping configurations), regex renderer, slicing and field/regex escaping run on it and are compared with an independent reference parser/decoder. 'Confirmed' = all paths exhausted and negated assertion unsat on each.",
        TB,
        "5.C05",
    ),
}

CHECKS["C18"] = (
    "term-stub execution of the real expand() on a token IPv4Network + z3 bit-vector queries (all networks x all probes per prefix length); CrossHair selector families for native CIDR values and IPv6",
    "IPv4: for each of the 33 prefix lengths one z3 query over ALL 2^32 aligned network addresses and ALL 2^32 probe addresses decides 'exactly one produced pattern matches iff the address is inside' (exact, complete, non-redundant). Native-expression values and an IPv6 probe family (first/last/interior addresses incl. zero-run layouts) are explored by CrossHair over selector spaces. The IPv6 universal claim is NOT decided (bounded family only).",
    TB,
    "5.C18",
)
CHECKS["C04"] = (
    "term-stub execution of the real base64/base64offset modifier on a token Base64 model + z3 bit-vector queries over all payload/prefix/suffix byte values per length profile; CrossHair class-selector families for the UTF-16 modifiers and chains",
    "base64offset: for every payload length profile (1..3/4 characters of UTF-8 width 1..4, ASCII up to 12/24) x prefix 0..5 x suffix 0..5 z3 decides over all byte values that the value for alignment k mod 3 occurs in Base64(prefix+payload+suffix). base64/wide/utf16be/utf16 and chains: bytes of the value == codec bytes, exhaustively over 25 character classes (<= 2/3 characters) and payload lengths 0..150.",
    TB,
    "5.C04",
)

CHECKS["C02"] = (
    "bounded symbolic execution (CrossHair+z3): condition strings from symbolic selectors through the real pyparsing grammar/postprocess vs an independent recursive-descent parser, equality of the two boolean functions decided by the solver over a symbolic truth assignment",
    "All flat expressions of 1..4 operands with and/or, stacked 'not', one optional (negated) parenthesised span; 27 tricky detection names in 8 contexts; 18 selector patterns x 3 quantifiers x all subsets of 6 detection names. For each explored string the solver decides equality of real and reference tree for ALL truth assignments (one query). Each condition text is parsed twice with different detection contents so that parse-cache leakage is visible.",
    TB,
    "5.C02",
)

CHECKS["C09"] = (
    "bounded symbolic execution (CrossHair+z3) over a symbolic reference DAG, generate flags, missing reference and document permutation; real load paths + conversion compared with the canonical order",
    "K=4 (quick) / 5 (thorough) documents; every reference DAG over them, every generate-flag combination, an optional missing reference, every permutation, three load paths (from_dicts, from_yaml, merge at every split). Oracle: referenced rules precede referrers in SigmaCollection.rules, identical per-rule results and query multiset as the canonical order, expected number of emitted queries, SigmaRuleNotFoundError at load for a missing reference. References only in an extended condition (EXT=1); load_ruleset over two real files (PATH=3); an integer instead of a name as dangling reference (INTREF=1).",
    TB,
    "5.C09",
)

CHECKS["C07"] = (
    "bounded symbolic execution (CrossHair+z3): document mutations chosen by symbolic selectors (path x operation x replacement value of every YAML type) and symbolic strings in scalar fields, loaded in strict and collecting mode",
    "Every single mutation (delete / replace by 20 values of every YAML type incl. infinity, overflowing numeric text, 400-digit integer / non-string key) at every key path of five base documents (rule, correlation, filter, 4-document collection with global/repeat actions, rule with a pre-existing fault) and symbolic strings (len <= 1..3) in 13 scalar fields. Oracle: only SigmaError escapes in strict mode, nothing escapes in collecting mode, errors non-empty iff strict raises, first collected == raised. Also: a collection in which filters are applied while loading (6th base document); all sequences of 1..3 documents out of 10 valid / faulty kinds (error order); structured date texts (5 spellings x 4 years x 6 months x 7 days) in rules, filters and correlation rules.",
    TB,
    "5.C07",
)

CHECKS["C01"] = (
    "CrossHair-explored rule shapes and backend configurations through the real from_dict -> convert_rule chain; each emitted query is parsed back with the configured target precedence and its equivalence with the reference semantics of the source document is decided by z3 over all truth assignments; leaf rendering on a symbolic value string",
    "Rule shapes: 1..3 operands from a 26-entry detection pool (maps, lists of maps, value lists, keywords, |all, |neq, null, exists, regex+flags, cidr, windash expansion, cased, numbers, compare, fieldref, base64offset of a non-ASCII value, wide|base64), and/or/not, one optional negated parenthesised span, optional second condition; 13 backend configurations (6 precedence orders, parenthesize, in-list variants, no string operators, native CIDR, no explicit not-exists, NOT-as-not-equals). Per shape one z3 query decides equivalence for ALL assignments of the atomic predicates. String-operator selection: symbolic value (len <= 2/3) x 4 operator configurations x plain/cased.",
    TB,
    "5.C01",
)

CHECKS["C08"] = (
    "bounded symbolic execution (CrossHair+z3) over symbolic rule kinds per collection position and the collect_errors flag; one shared backend/pipeline vs fresh per-rule conversions of the real Backend.convert",
    "3-rule collections, each rule of one of 15 kinds (ok with 1/2 conditions, failing in the pipeline / with an unresolved placeholder / with a value the backend rejects / with a missing detection / inside negated rendering, output disabled, rules sharing condition text and field names, state-setting marker rule, unmapped / target field names), collect_errors on/off, 4 backend+pipeline set-ups. Oracle: output == concatenation of the stand-alone results in order, exactly one (rule, error) per failing rule, first error raised without collection. 17 rule kinds incl. a null keyword; [A, correlation over A, B] collections with failing A / failing correlation rule / generate on/off / collect on/off; a set-up whose pipeline sets and extends the rule's field list.",
    TB,
    "5.C08",
)
CHECKS["C14"] = (
    "bounded symbolic execution (CrossHair+z3) over symbolic priorities / spec-list arrangements / bracketings / stage configurations; composed pipelines compared with one pipeline defined with the concatenated items, by structure and by converting probe rules",
    "Resolver: 4 named pipelines, priorities 0..1 (quick) / 0..2 (thorough), all 64 ordered spec lists, resolved once or twice. Addition: 10 bracketing/history variants (incl. a post-processing-only operand reused in a later sum while the first backend keeps converting) x 4 probe shapes. Backend stages: backend/user/output-format pipelines present or absent x output format omitted/default/alt x 1..2 rules x 1..2 conditions. Order is observed through order-sensitive marker items (field suffix, query embedding, output concatenation). Pipelines without transformation items (NOITEMS=1) and with equal declared names (SAMENAME=1); convert()/convert_rule() with one output format followed by convert_rule() with another.",
    TB,
    "5.C14",
)
CHECKS["C15"] = (
    "bounded symbolic execution (CrossHair+z3) over symbolic operation histories on shared backend/pipeline/cache state followed by a probe conversion, compared with a fresh set-up",
    "All histories of <= 3 (quick) / 4 (thorough) operations out of 10 kinds (load, convert collection, convert single rule, init pipeline, second backend with own / with the SAME pipeline object, conversions failing in the pipeline / in conversion / inside negated rendering) x 6 probe rules x 2 entry points (convert, convert_rule) x 3 set-ups; also asserts the backend class templates are unchanged after every history. Further set-ups: query envelope reading the pipeline state with class-level defaults; pipeline that sets / extends / renders the rule's field list; external-source placeholder pipeline.",
    TB,
    "5.C15",
)

CHECKS["C17"] = (
    "bounded symbolic execution (CrossHair+z3) over symbolic value text (character and segment selectors) and modifier, per position x pipeline instantiation; real from_dict -> pipeline -> convert_rule vs a reference expansion of the source text",
    "Values: every string of length <= 4 (quick) / 5 (thorough) over {%, a, b, backslash, *} and every concatenation of 1..3 segments out of 11 (0..3 placeholders with list/scalar/numeric/mixed-type/undefined variables, literals, wildcards, escaped percent); positions: field string, keyword, regular expression; 6 pipelines (none, value list, wildcard, include/exclude splits in both orders, query expression). Oracle: OR of exactly the reference expansions in configuration order, or a SigmaError naming the unresolved placeholder; never %name% in a query.",
    TB,
    "5.C17",
)

CHECKS["C03"] = (
    "bounded symbolic execution (CrossHair+z3) over symbolic plain values (character selectors / typed values, single or list, field or keyword) and a symbolic selector into a table of modifier chains; real SigmaDetectionItem.from_mapping vs a table-driven reference of the modifier semantics",
    "Values: every string of length <= 2 (quick) / 3 (thorough) over an 11-character alphabet (wildcards, backslash, percent, dashes and slashes at word/non-word boundaries, space, dot, non-ASCII letter, digit) plus 12 typed / longer values, single or in a 2-element list, with a field or as keyword; chains: all 33 single modifiers and 58 chains of length 2..4, admissible and inadmissible. Oracle: equal abstract values (type, content, wildcards, placeholders, flags), value linking and negation - or a SigmaError and nothing else for an inadmissible chain. Typed values include regular expressions ending in an escaped dot + star / escaped dollar sign.",
    TB,
    "5.C03",
)

CHECKS["C13"] = (
    "CrossHair symbolic execution of the real ProcessingItem gate logic with stub conditions whose outcomes are symbolic booleans (all outcomes decided at once), plus selector families for built-in conditions and applied-so-far scenarios",
    "Rule / detection-item / field-name gates with 0..2 conditions each, list and map form, default/and/or linking, negation, field-reference path; 22 condition expressions on all three levels; built-in conditions (include/exclude fields plain+regex on a symbolic field name of length <= 3 (quick) / 8 (thorough), match_string, contains_wildcard, is_null, contains_field / contains_detection_item over 8 rule shapes, logsource, tag, rule_attribute); pipelines whose later items are gated on processing_item_applied / processing_state of earlier items (rule, detection item and field level), and reset between rules. Numeric rule attributes x 6 operators x 5 values (int and float); per-field applied-item bookkeeping over five mapping kinds; pipeline state across a nested pipeline.",
    TB,
    "5.C13",
)

CHECKS["C11"] = (
    "CrossHair-explored selector space (log sources, rule list forms, detection names and condition forms on both sides, stacking, draw of the internal prefix with random.choices stubbed) through the real collection loading + conversion; per rule one z3 query decides equivalence of the converted query with (rule) AND (filter over its own detections)",
    "12 rule name/condition sets x 11 filter name/condition sets (overlapping names, names starting with keywords / digits / underscore, wildcard patterns, parenthesised groups, a name colliding with the drawn prefix) x 1..2 stacked filters x 3 draws; all 3^6 log source combinations x 9 rule-list forms (incl. id in upper case); a bystander rule must stay unchanged; no internal identifier in any query. Thorough: the name/condition/stacking/draw space crossed with 9 category relations x 4 rule-list forms. One or two filters shared by TWO rules of a collection (12 x 4 rule sets x 11 filter sets), with and without a field-renaming pipeline, and with the second rule created by the collection action 'repeat'.",
    TB,
    "5.C11",
)

CHECKS["C12"] = (
    "CrossHair-explored rule shapes through the real pipeline + conversion, one instantiation per built-in transformation / parameter variation; z3 decides equivalence of the converted query with the reference semantics of the hand-rewritten source; identity instances must give byte-identical queries",
    "39 transformation instances (hash field splitting, regex ignore-case flag / brackets, change_logsource chains, field mapping 1:1 / 1:n / keyword->field / prefix mapping / prefix / suffix / scoped by include/exclude/applied-item, drop item, add_condition plain / negated / template / scoped out, replace_string incl. identity, empty result and numbers, map_string 1:1 / 1:n / drop, case, set_value incl. false, convert_type, regex, nest, chains, 'matches nothing' instances) x two detections from a 15-shape pool x 6 condition forms, each pipeline first applied to a primer rule with another log source; 4 placeholder pipelines x 11 `expand` shapes compared with the hand-expanded document (thorough: 28-shape pool incl. Hashes under all / by length, cased / endswith / contains / lt / exists / re|i / mixed lists x 12 condition forms).",
    TB,
    "5.C12",
)

CHECKS["C10"] = (
    "CrossHair-explored selector space of correlation rules through the real collection loading + conversion on a verification backend with delimiter-structured correlation templates; expected query computed element by element from the source documents; extended conditions compared by z3-decided boolean equivalence",
    "8 correlation types x 1..3 referenced rules (single-condition, two-condition, nested correlation) x group-by variants incl. aliases x generate x field-mapping pipeline x sub-query finalisation x typing templates; 8 types x 6 operators x 5 counts incl. fractions (+percentile incl. 99.9); 7 timespan units x 4 counts x 3 rendering modes and every timespan text of length <= 3/4 over a 12-character alphabet; 18 extended condition expressions x temporal/temporal_ordered x with/without rules list. Field mapping bound to a logsource rule condition (LSC=1); query post-processing that also applies to correlation rules (PPALL=1); fractional counts and percentiles.",
    TB,
    "5.C10",
)

CHECKS["C16"] = (
    "CrossHair symbolic execution of the capability gates with a symbolic environment value (os.environ stubbed) and selector families for key smuggling / nesting / allowed paths; every dangerous operation (subprocess, open, requests, importlib exec, realpath) is replaced by a recording stub",
    "Gate functions of file/http/command placeholder and template items on every ASCII environment string of length <= 4 (quick) / 6 (thorough) (symbolic) x caller flag; 10 item kinds (flat, nested in 'nest', template post-processing, template finalizer nested 0..3 levels) x 5 key-injection variants x 4 truthy values x caller opt-in x 12 environment values: a stub is reached only with caller opt-in or env in {1,true}, else SigmaSecurityError, capability flags never come from the document; allowed-path containment for vars files incl. prefix-sharing siblings, '..', symlink escapes (realpath stub) and nested finalizers / source_path default. Also templates (post-processing / finalizer, no vars file) whose TEXT calls the pipeline loader with the opt-in arguments set.",
    TB + " The stubs stand in for Python audit events (not observable symbolically).",
    "5.C16",
)

CHECKS["C19"] = (
    "CrossHair-explored selector spaces over detection-name subsets x condition forms, id/title/file assignments, rule and validator orders, exclusion tables; real validators vs an independent reference resolver and equivalence-class oracle",
    "Reference checks: 63 detection name subsets x 14 condition forms (1..2 conditions): dangling detection iff not referenced by name or matching selector, dangling condition iff a selector matches nothing. Uniqueness: 4 (verbatim-copy) rules with id from 3 values or none, 2 titles, 2 file names x 2 directories: issue groups == equivalence classes. Purity/order/exclusions: all built-in offline validators over 4 rules in all 24 orders x 4 validator orders x before/after conversion x 8 exclusion tables; per-rule issues equal the stand-alone validation of each rule; to_dict() and queries unchanged. One SigmaValidator object used for two runs (before / after conversion) in all 24 rule orders, with exclusions for one rule id configured under two of five spellings.",
    TB,
    "5.C19",
)

CHECKS["C20"] = (
    "CrossHair-explored selectors over the modelled sources of nondeterminism: iteration order of every set created by the sigma.* source (import hook: set/frozenset names bound to order-permuting subclasses before the module bodies run, set displays and comprehensions rewritten to set([...]) calls), regex flag sets, and the draws of random.choices; a 14-item corpus is converted with the real code per (order, draw) and compared byte for byte with the baseline",
    "PARTIAL: decides independence from the modelled set iteration orders (8 orders quick / 12 thorough) and random draws (4 draw sequences) for queries AND error texts of a 14-item corpus, and that internal identifiers never surface. Real PYTHONHASHSEED randomisation / process starts and sets created inside C code or third-party libraries are outside the solver's reach; a 3-seed subprocess run with ordinary sets is only a self-check.",
    TB,
    "5.C20",
)

CHECKS["C06"] = (
    "CrossHair-explored selector spaces (value text from character selectors x detection shape, metadata variants, transformation x rule shape, correlation / filter variants) through the real from_dict -> to_dict -> from_dict (and YAML) chain; dict forms and verification-backend queries compared",
    "Detection rules: every value of length <= 2 (quick) / 3 (thorough) over an 8-character alphabet in 18 detection shapes, via dict and via YAML; 16x16 metadata variant pairs; after one of 10 pipeline transformations on 16 rule shapes to_dict() must raise a SigmaError or reload to equal queries; correlation rules: 8 types x aliases x group-by x generate x percentile {0, 90} x extended condition; 4 filter shapes, compared inside a converted collection. After a transformation: 15 transformations (incl. several one-to-many mapped fields, regex, hashes_fields) x 21 rule shapes (incl. encoding modifiers, windash, cased, regular expression with flag, Hashes).",
    TB,
    "5.C06",
)

NOT_APPLICABLE = {}

ALL = [f"C{n:02d}" for n in range(1, 21)]


def main():
    checks = []
    for pid in ALL:
        if pid not in CHECKS:
            continue
        tech, text, note, ref = CHECKS[pid]
        checks.append(
            {
                "property_id": pid,
                "quick_cmd": f"./check {pid} --tier quick",
                "thorough_cmd": f"./check {pid} --tier thorough",
                "evidence_file": f"/verif/evidence/{pid}.json",
                "replay_cmd_template": "./check --replay {path}",
                "engine": "solver",
                "level_claimed": {"category": "model_checking", "text": text, "design_ref": "DESIGN.md " + ref},
                "level_note": note,
                "technique": tech,
            }
        )
    na = [{"property_id": p, "reason": NOT_APPLICABLE.get(p, "check not built yet in this round (work in progress); no claim is made")} for p in ALL if p not in CHECKS]
    man = {
        "version": 1,
        "setup_cmd": "./setup.sh",
        "hooks": {
            "guard": "SIGMAHQ_PYSIGMA_VERIF",
            "enable": "no source hooks are needed: harnesses import /repo's modules directly and replace environment functions from the harness side",
            "baseline_off_cmd": "cd /repo && /venv/bin/python -m pytest -ra -q -p no:cacheprovider --timeout=900 --continue-on-collection-errors",
            "source_commits": [],
            "add_only": True,
        },
        "engines": [
            {
                "name": "solver",
                "path": "/verif/vlib",
                "serves_properties": [c["property_id"] for c in checks],
                "kind_free_text": "E1: CrossHair 0.0.110 symbolic execution of the real pySigma code (z3 back end), one process per obligation; E2: term-stub execution of the real function + z3 bit-vector queries; E3: z3 regular-language / boolean equivalence. Counterexamples are replayed with plain CPython before being reported.",
            }
        ],
        "checks": checks,
        "not_applicable": na,
        "notes": "CLI is ./check (not `vp`, which is the sandbox helper). Exit 0 = no unlisted violation; 1 = VIOLATION line(s); 3 = harness failure. Known findings: /verif/known_findings.json.",
    }
    with open(os.path.join(ROOT, "MANIFEST.json"), "w") as f:
        json.dump(man, f, indent=1)
    print("wrote MANIFEST.json with", len(checks), "checks;", len(na), "not applicable")


if __name__ == "__main__":
    main()
