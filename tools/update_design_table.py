#!/usr/bin/env python3
"""Fill the 'quick result' column of the per-property table in docs/design_tail.md from /verif/evidence/Cnn.json
(and append the thorough result from evidence/thorough/Cnn.json where present)."""
import json, os, re
ROOT = os.path.dirname(os.path.dirname(os.path.abspath(__file__)))
p = os.path.join(ROOT, "docs", "design_tail.md")
s = open(p).read()
def res(path):
    if not os.path.exists(path):
        return None
    e = json.load(open(path)); c = e["coverage"]
    kf = sum(1 for k in c.get("known_findings", []) if k.get("status") == "open" and k.get("reproduces"))
    txt = f"{c['discharged']}/{c['obligations']} confirmed"
    if c.get("inconclusive"):
        txt += f", {c['inconclusive']} inconclusive"
    if kf:
        txt += f", {kf} known finding{'s' if kf > 1 else ''}"
    return txt, round(e.get("wall_s", 0))
out = []
in_table = False
for line in s.splitlines():
    if line.startswith("## "):
        in_table = line.startswith("## 5.")
    m = re.match(r"^\| (C\d\d) \|", line)
    if in_table and m and line.count("|") >= 6:
        cells = line.strip().strip("|").split("|")
        q = res(os.path.join(ROOT, "evidence", m.group(1) + ".json"))
        t = res(os.path.join(ROOT, "evidence", "thorough", m.group(1) + ".json"))
        if q:
            cell = f" quick: {q[0]} ({q[1]} s)"
            if t:
                cell += f"; thorough: {t[0]} ({t[1]} s)"
            cells[-1] = cell + " "
            line = "|" + "|".join(cells) + "|"
    out.append(line)
open(p, "w").write("\n".join(out) + "\n")
