#!/usr/bin/env python3
"""Regenerate seeded/RESULTS.md from the result.json files (also used at the end of tools/sweep_seeded.sh)."""
import glob, json, os
os.chdir(os.path.dirname(os.path.dirname(os.path.abspath(__file__))))
rows = ["| seeded change | property | applies | check exit | VIOLATION lines | caught |", "|---|---|---|---|---|---|"]
for f in sorted(glob.glob("seeded/C*-*/result.json")):
    r = json.load(open(f)); p = r.get("property") or r["seed"].split("-")[0]
    if r["applies"]:
        rows.append(f"| {r['seed']} | {p} | yes | {r['check_exit']} | {r['violation_lines']} | {r['caught']} |")
    else:
        rows.append(f"| {r['seed']} | {p} | no (superseded by a fix commit) | - | - | - |")
open("seeded/RESULTS.md", "w").write("\n".join(rows) + "\n")
print(len(rows) - 2, "rows")
