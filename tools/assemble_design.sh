#!/bin/sh
# tools/assemble_design.sh : DESIGN.md = docs/design_head.md + docs/design_tail.md with the seeded-results table
# (seeded/RESULTS.md, written by tools/sweep_seeded.sh) substituted for the placeholder line.
cd /verif
{
  cat docs/design_head.md
  awk '/^SEEDED_RESULTS_TABLE$/ { while ((getline line < "seeded/RESULTS.md") > 0) print line; next } { print }' docs/design_tail.md
} > DESIGN.md
