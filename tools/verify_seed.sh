#!/bin/sh
# tools/verify_seed.sh <worktree-id> <mK> [<seed-name>] : independently confirm a seeded change produced by a sub-agent
# in scratch worktree /tmp/wt/<Cnn> (patch applies; full suite passes with it; demo fails with it
# and passes without it), then store it under /verif/seeded/<Cnn>-<mK>/.
set -u
P=$1; M=$2; WT=/tmp/wt/$P; SRC=$WT/out/$M; DST=/verif/seeded/${3:-$P-$M}
cd $WT || exit 2
git checkout -q -- sigma tests 2>/dev/null
git apply --check $SRC/patch.diff || { echo "patch does not apply"; exit 2; }
PYTHONPATH=$WT /venv/bin/python $SRC/demo.py >/tmp/wt/$P.demo0 2>&1; D0=$?
git apply $SRC/patch.diff
PYTHONPATH=$WT /venv/bin/python -m pytest -q -p no:cacheprovider -q tests --deselect tests/test_plugins.py --deselect tests/test_validators_tags.py -x >/tmp/wt/$P.suite 2>&1; S=$?
PYTHONPATH=$WT /venv/bin/python $SRC/demo.py >/tmp/wt/$P.demo1 2>&1; D1=$?
git checkout -q -- sigma
echo "demo pristine exit=$D0; suite with patch exit=$S ($(tail -1 /tmp/wt/$P.suite)); demo with patch exit=$D1"
if [ $D0 -eq 0 ] && [ $S -eq 0 ] && [ $D1 -ne 0 ]; then
  mkdir -p $DST && cp $SRC/patch.diff $SRC/demo.py $DST/
  /venv/bin/python - "$SRC/meta.json" "$DST/meta.json" "$(tail -1 /tmp/wt/$P.suite)" <<'PY'
import json,sys
m=json.load(open(sys.argv[1]))
m["verified_by_main"]={"demo_pristine_exit":0,"suite_with_patch":sys.argv[3],"demo_with_patch_exit":"non-zero","how":"tools/verify_seed.sh in scratch worktree: git apply; full pytest suite (network tests deselected); demo.py; git checkout; demo.py"}
json.dump(m,open(sys.argv[2],"w"),indent=1)
PY
  echo KEPT $DST
else
  echo REJECTED
fi
rm -f /tmp/wt/$P.demo0 /tmp/wt/$P.demo1 /tmp/wt/$P.suite
