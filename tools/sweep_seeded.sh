#!/bin/sh
# tools/sweep_seeded.sh [<seed> ...] : apply the kept seeded changes (default: all) to /repo in turn, run the quick
# check of the property, undo the change; writes seeded/<id>/result.json + check_output.txt and regenerates the
# summary table seeded/RESULTS.md from all result.json files.
cd /verif
[ -z "$(git -C /repo status --porcelain)" ] || { echo "/repo not clean"; exit 2; }
if [ $# -gt 0 ]; then LIST=""; for s in "$@"; do LIST="$LIST seeded/$s"; done; else LIST=$(ls -d seeded/C*-*); fi
for D in $LIST; do
  N=$(basename $D); P=$(echo $N | cut -d- -f1)
  if git -C /repo apply --check /verif/$D/patch.diff 2>/dev/null; then
    git -C /repo apply /verif/$D/patch.diff
    ./check $P --only c > $D/check_output.txt 2>&1; RC=$?   # --only c = every obligation, but the evidence of the clean tree is left alone
    git -C /repo checkout -- .
    V=$(grep -c '^VIOLATION' $D/check_output.txt)
    C=no; [ $RC -eq 1 ] && [ $V -gt 0 ] && C=yes
    echo "{\"seed\": \"$N\", \"property\": \"$P\", \"applies\": true, \"check_exit\": $RC, \"violation_lines\": $V, \"caught\": \"$C\"}" > $D/result.json
  else
    echo "{\"seed\": \"$N\", \"property\": \"$P\", \"applies\": false}" > $D/result.json
  fi
  cat $D/result.json
done
python3 - <<'PY'
import glob, json
rows = ["| seeded change | property | applies | check exit | VIOLATION lines | caught |", "|---|---|---|---|---|---|"]
for f in sorted(glob.glob("seeded/C*-*/result.json")):
    r = json.load(open(f)); p = r.get("property") or r["seed"].split("-")[0]
    if r["applies"]:
        rows.append(f"| {r['seed']} | {p} | yes | {r['check_exit']} | {r['violation_lines']} | {r['caught']} |")
    else:
        rows.append(f"| {r['seed']} | {p} | no (superseded by a fix commit) | - | - | - |")
open("seeded/RESULTS.md", "w").write("\n".join(rows) + "\n")
PY
