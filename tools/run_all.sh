#!/bin/sh
# tools/run_all.sh [quick|thorough] : run every registered check sequentially, summarise
T=${1:-quick}
cd /verif
for n in 01 02 03 04 05 06 07 08 09 10 11 12 13 14 15 16 17 18 19 20; do
  s=$(date +%s)
  ./check C$n --tier $T > /tmp/verif_run_C$n.log 2>&1; rc=$?
  e=$(date +%s)
  echo "C$n rc=$rc $((e-s))s $(grep -E '^C[0-9]+ tier=' /tmp/verif_run_C$n.log | cut -c1-150) $(grep -c '^KNOWN-FINDING' /tmp/verif_run_C$n.log) known"
done
