#!/bin/bash
# tools/run_all.sh [quick|thorough] [parallel] : run every registered check (default: one after the other;
# with <parallel> N properties at a time), summarise in /tmp/verif_run_summary.txt
T=${1:-quick}; PAR=${2:-1}; JOBS=16; [ "$PAR" -eq 2 ] && JOBS=10; [ "$PAR" -ge 3 ] && JOBS=8
cd /verif
./setup.sh || exit 3
: > /tmp/verif_run_summary.txt
run_one() {
  n=$1; T=$2
  s=$(date +%s)
  ./check C$n --tier $T --jobs $JOBS > /tmp/verif_run_C$n.log 2>&1; rc=$?
  e=$(date +%s)
  echo "C$n rc=$rc $((e-s))s $(grep -E '^C[0-9]+ tier=' /tmp/verif_run_C$n.log | cut -c1-150) $(grep -c '^KNOWN-FINDING' /tmp/verif_run_C$n.log) known" | tee -a /tmp/verif_run_summary.txt
}
if [ "$PAR" -le 1 ]; then
  for n in 01 02 03 04 05 06 07 08 09 10 11 12 13 14 15 16 17 18 19 20; do run_one $n $T; done
else
  # longest first, so that the tails overlap
  for n in 01 03 15 08 12 09 17 07 05 04 02 11 10 13 14 16 18 19 06 20; do
    while [ $(jobs -r | wc -l) -ge $PAR ]; do sleep 5; done
    run_one $n $T &
  done
  wait
fi
sort /tmp/verif_run_summary.txt
