#!/bin/sh
# tools/dev.sh <Cnn> --only <substr> [...] : development run against the clean scratch worktree /tmp/wt/clean (writes no evidence)
cd /verif
export VERIF_DEV_REPO=${VERIF_DEV_REPO:-/tmp/wt/clean}
export PYTHONPATH=$VERIF_DEV_REPO:/verif PYTHONDONTWRITEBYTECODE=1
exec .venv/bin/python -m vlib.runner "$@"
