#!/bin/sh
# tools/seed_r4.sh <Cnn> <round-tag> [jobs]: verify a sub-agent's change out/m1 in /tmp/wt/<Cnn>-<tag>, keep it as
# /verif/seeded/<Cnn>-<tag>m1, then run the property's quick obligations against that worktree with the patch applied
# (development mode: VERIF_DEV_REPO, writes no evidence) and record the outcome next to the seed.
P=$1; T=$2; J=${3:-5}; WT=/tmp/wt/$P-$T; S=$P-${T}m1
/verif/tools/verify_seed.sh $P-$T m1 $S || exit 2
[ -d /verif/seeded/$S ] || exit 2
git -C $WT apply /verif/seeded/$S/patch.diff || exit 2
VERIF_DEV_REPO=$WT /verif/tools/dev.sh $P --only c --jobs $J > /verif/seeded/$S/check_output.txt 2>&1; RC=$?
git -C $WT checkout -- sigma
V=$(grep -c '^VIOLATION' /verif/seeded/$S/check_output.txt)
printf '{"seed": "%s", "exit": %s, "violations": %s, "mode": "dev worktree (tools/seed_r4.sh)"}\n' $S $RC $V > /verif/seeded/$S/result.json
echo "$S rc=$RC violations=$V $(grep -E '^C[0-9]+ tier=' /verif/seeded/$S/check_output.txt | cut -c1-140)"
