#!/bin/sh
# tools/triage_seed.sh <seed-name> [jobs] : development triage of a seeded change against the scratch worktree
# /tmp/wt/clean (not /repo): apply, run the quick obligations of the property through tools/dev.sh, revert.
S=$1; J=${2:-6}; P=$(echo $S | cut -d- -f1); WT=/tmp/wt/clean
[ -z "$(git -C $WT status --porcelain)" ] || { echo "$WT not clean"; exit 2; }
git -C $WT apply /verif/seeded/$S/patch.diff || exit 2
/verif/tools/dev.sh $P --only c --jobs $J > /tmp/triage_$S.log 2>&1; RC=$?
git -C $WT checkout -- .
echo "$S rc=$RC violations=$(grep -c '^VIOLATION' /tmp/triage_$S.log) $(grep -E '^C[0-9]+ tier=' /tmp/triage_$S.log | cut -c1-120)"
